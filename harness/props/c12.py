"""C12 - Filters mean what SQL says, identically in every scan API.

Specification: spec/FilterSel.tla (EXTENDS Filter) and spec/MC_FilterSel.tla.
  reference     RefSat3 / RefRowSat / Sel (three-valued row selection), RefCond (grammar of
                well-formed filter conditions; everything else must raise), Expected.
  transcription ParseCond/CheckValueRaises/ParseOp (filters.py:39-165), BuildCondition/Combine (filters.py:168-238),
                ReadVerify/ReadNoVerify/ScanTable/ScanBatches/IterFileBatches (transaction.py:917-1218).
  theorems      EngineMatchesReference, ParserConforms, StatsArms, ApiConforms (C12 itself).
                The code as it is = StatsPushdown FALSE, ValidateFirst TRUE (since /repo 2813326, e9269c1).

1. TLC: (a) the model of the code as it is satisfies every theorem incl. ApiConforms and exports the complete
   case table (layout, filter, reference row set; filter-condition shapes with their reference meaning);
   (b) anti-vacuity: ApiConforms FAILS on each model of the code before the two repairs.
2. Binding spec -> code.  Every exported case is concretised per column type (harness/values.py),
   written through the real append path and read back through EVERY read API and option
   (scan, scan(parallel=2), scan(parallel=True), scan_batches(1|2|1000), iter_records, each with
   verify_checksums on/off, with and without projection).  Verdict by the REFERENCE row set of the
   specification; disagreement with the transcription that does not break the property is a
   model-drift note.
3. Parser differential: every condition shape through the real parse_filter_dict /
   to_pyarrow_compute_expression / Table.filter, judged by RefCond.
4. Malformed filters through every API on empty and non-empty tables: must raise, never be reinterpreted.
5. Extension probes (cross-kind literals, NaN literals, empty projection): observations only.
"""
from __future__ import annotations

import collections
import concurrent.futures
import concurrent.futures.process
import json
import multiprocessing
import os
import shutil
import tempfile
import traceback
from typing import Any, Dict, Iterable, List, Optional, Tuple

from .. import tlc
from ..common import Ctx, MachineryError, rng, scratch_dir
from ..values import ALL_TYPES, FLOAT_TYPES, NAN, NULL, conc, row_key

LEVEL = "model_checking"

INVS_FAITHFUL = ["EngineMatchesReference", "EngineRowsMatchReference", "SelAgreesWithFilterSelect", "StatsArms",
                 "ParserConforms", "ApiConforms"]

# every type once as column a and once as column b
QUICK_PAIRS = [("boolean", "double"), ("int", "float"), ("long", "string"), ("float", "long"), ("double", "boolean"),
               ("date", "timestamp"), ("time", "int"), ("timestamp", "date"), ("string", "time")]
EXTRA_PAIRS = [("long", "double"), ("string", "double"), ("double", "float"), ("timestamp", "float"), ("int", "long"),
               ("string", "string"), ("date", "double"), ("time", "float"), ("boolean", "boolean")]

# thorough: the complete (file x filter) grid is executed for these pairs, a (larger) sample for the others
FULL_GRID_PAIRS = [("boolean", "double"), ("int", "float"), ("float", "long"), ("long", "string")]

# (api, kwargs): the seven read programs; each runs with verify_checksums True and False
VARIANTS: List[Tuple[str, Dict[str, Any]]] = [
    ("scan", {}), ("scan", {"parallel": 2}), ("scan", {"parallel": True}),
    ("scan_batches", {"batch_size": 1}), ("scan_batches", {"batch_size": 2}), ("scan_batches", {"batch_size": 1000}),
    ("iter_records", {}),
]

ALIASES = {
    "==": ["==", "=", "eq", "EQ"], "!=": ["!=", "<>", "ne", "Ne"], "<": ["<", "lt", "LT"], "<=": ["<=", "le", "Le"],
    ">": [">", "gt", "GT"], ">=": [">=", "ge", "gE"], "in": ["in", "IN", "In"],
    "not_in": ["not_in", "not in", "notin", "NOT_IN", "Not In", "NOTIN"],
    "is_null": ["is_null", "isnull", "IS_NULL", "IsNull"],
    "is_not_null": ["is_not_null", "notnull", "isnotnull", "IS_NOT_NULL", "NotNull", "ISNOTNULL"],
    "between": ["between", "BETWEEN", "Between"],
}


# ------------------------------------------------------------------------------------------------
# concretisation
# ------------------------------------------------------------------------------------------------

def _conc_ok(t: str, a: int) -> bool:
    if a == NULL:
        return True
    if a == NAN:
        return t in FLOAT_TYPES
    if t == "boolean":
        return a in (0, 2)
    return -1 <= a <= 7


def _case_concretisable(files: List[List[Dict[str, int]]], exprs: List[Dict[str, Any]], types: Dict[str, str]) -> bool:
    for f in files:
        for row in f:
            for c, v in row.items():
                if not _conc_ok(types[c], v):
                    return False
    for e in exprs:
        if e["op"] in ("is_null", "is_not_null"):
            continue
        for v in e["lit"]:
            if not _conc_ok(types[e["col"]], v):
                return False
    return True


def _schema(types: Dict[str, str]) -> Any:
    from datashard import Schema

    fields = [{"id": 1, "name": "a", "type": types["a"], "required": False},
              {"id": 2, "name": "b", "type": types["b"], "required": False},
              {"id": 9, "name": "rid", "type": "long", "required": True}]
    return Schema(schema_id=1, fields=fields)


def _filter_dict(exprs: List[Dict[str, Any]], types: Dict[str, str], r: Any = None) -> Optional[Dict[str, Any]]:
    """User-level filter dict for a reference expression list (None = no filter).  `r` (a Random)
    picks among the operator spellings and literal containers the parser must treat alike."""
    if not exprs:
        return None

    def spell(op: str) -> str:
        return op if r is None else r.choice(ALIASES[op])

    def cv(col: str, a: int) -> Any:
        return conc(types[col], a)

    fd: Dict[str, Any] = {}
    i = 0
    while i < len(exprs):
        e = exprs[i]
        col = e["col"]
        if col in fd:
            raise MachineryError(f"two conditions on one column cannot be written as a filter dict: {exprs}")
        if e["op"] == ">=" and i + 1 < len(exprs) and exprs[i + 1]["col"] == col and exprs[i + 1]["op"] == "<=":
            lo, hi = cv(col, e["lit"][0]), cv(col, exprs[i + 1]["lit"][0])
            fd[col] = (spell("between"), (lo, hi) if r is None or r.random() < 0.5 else [lo, hi])
            i += 2
            continue
        if e["op"] in ("in", "not_in"):
            vals = [cv(col, v) for v in e["lit"]]
            fd[col] = (spell(e["op"]), vals if r is None or r.random() < 0.7 else tuple(vals))
        elif e["op"] in ("is_null", "is_not_null"):
            fd[col] = (spell(e["op"]), True)
        elif e["op"] == "==" and e["lit"][0] != NULL and r is not None and r.random() < 0.3:
            fd[col] = cv(col, e["lit"][0])               # bare value = equality
        else:
            fd[col] = (spell(e["op"]), cv(col, e["lit"][0]))
        i += 1
    return fd


def _ekey(exprs: List[Dict[str, Any]]) -> str:
    return json.dumps(exprs, sort_keys=True)


def _fkey(file: List[Dict[str, int]]) -> str:
    return json.dumps(file, sort_keys=True)


def _expr_special(exprs: List[Dict[str, Any]]) -> bool:
    """NULL / empty set / between / not_in / != / null operators / conjunction over both columns."""
    if len({e["col"] for e in exprs}) > 1 or len(exprs) > 1:
        return True
    for e in exprs:
        if e["op"] in ("in", "not_in", "is_null", "is_not_null", "!="):
            return True
        if NULL in e["lit"]:
            return True
    return False


def _file_special(file: List[Dict[str, int]]) -> bool:
    return (not file) or any(v in (NULL, NAN) for row in file for v in row.values())


# ------------------------------------------------------------------------------------------------
# executing the read APIs
# ------------------------------------------------------------------------------------------------

def _call(tbl: Any, api: str, kw: Dict[str, Any], flt: Any, cols: Optional[List[str]], verify: bool) -> Tuple[str, Any]:
    """("rows", [dict...]) or ("raise", "ExcType: message")."""
    try:
        if api == "scan":
            return "rows", tbl.scan(columns=cols, filter=flt, verify_checksums=verify, **kw)
        if api == "scan_batches":
            out: List[Dict[str, Any]] = []
            for batch in tbl.scan_batches(columns=cols, filter=flt, verify_checksums=verify, **kw):
                out.extend(batch)
            return "rows", out
        if api == "iter_records":
            return "rows", list(tbl.iter_records(columns=cols, filter=flt, verify_checksums=verify))
        raise MachineryError(f"unknown api {api}")
    except MachineryError:
        raise
    except Exception as ex:  # noqa: BLE001 - the outcome "raises" is what is being observed
        return "raise", f"{type(ex).__name__}: {str(ex)[:160]}"


def _project(row: Dict[str, Any], cols: Optional[List[str]]) -> Dict[str, Any]:
    return dict(row) if cols is None else {c: row[c] for c in cols}


def _bag(rows: Iterable[Dict[str, Any]]) -> "collections.Counter[str]":
    return collections.Counter(row_key(r) for r in rows)


def _is_nan(v: Any) -> bool:
    return isinstance(v, float) and v != v


class _Table:
    """A real table built from abstract files, with the bookkeeping the oracle needs."""

    def __init__(self, scratch: str, types: Dict[str, str], files: List[List[Dict[str, int]]]) -> None:
        from datashard import create_table

        self.dir = tempfile.mkdtemp(prefix="c12t-", dir=scratch)
        self.types = types
        self.files = files
        self.tbl = create_table(os.path.join(self.dir, "t"), _schema(types))
        self.rows: List[Tuple[int, int, Dict[str, Any]]] = []     # (file index 1.., row index 1.., concrete row)
        rid = 0
        for fi, f in enumerate(files, start=1):
            recs = []
            for ri, row in enumerate(f, start=1):
                rec = {"a": conc(types["a"], row["a"]), "b": conc(types["b"], row["b"]), "rid": rid}
                recs.append(rec)
                self.rows.append((fi, ri, rec))
                rid += 1
            if not self.tbl.append_records(recs):
                raise MachineryError("append_records returned False while building a C12 table")
        n = len(self.tbl._get_all_data_files())
        if n != len(files):
            raise MachineryError(f"table has {n} data files, expected {len(files)}")

    def close(self) -> None:
        shutil.rmtree(self.dir, ignore_errors=True)


def _lost_row_kinds(row: Dict[str, Any], exprs: List[Dict[str, Any]], fl_cols: List[str]) -> set:
    kinds = set()
    for e in exprs:
        v = row[e["col"]]
        if e["op"] in ("!=", "not_in") and _is_nan(v):
            kinds.add(("nan", e["op"]))
        if e["op"] == "in" and e["col"] in fl_cols and isinstance(v, float) and v == 0.0:
            kinds.add(("zero", "in"))
    return kinds


def _classify(v: Any) -> str:
    return "NULL" if v is None else ("NaN" if _is_nan(v) else "plain")


def _judge_filter(
    t: _Table, exprs: List[Dict[str, Any]], fd: Any, expected: List[Dict[str, Any]], runs: List[Tuple[str, Dict[str, Any], bool, Optional[List[str]]]],
    out: Dict[str, Any], ctxinfo: Dict[str, Any],
) -> None:
    """Run the filter through the given (api, kwargs, verify, columns) combinations and compare each
    result with the reference rows (projected).  Appends violations / notes to `out`."""
    fcols = sorted({e["col"] for e in exprs})
    all_rows = [r for _, _, r in t.rows]
    nan_rows = [r for r in all_rows if any(_is_nan(r[c]) for c in fcols)]
    exp_nonan = [r for r in expected if not any(_is_nan(r[c]) for c in fcols)]
    ops = "+".join(sorted({e["op"] for e in exprs})) or "nofilter"
    fl_cols = [c for c in ("a", "b") if t.types[c] in FLOAT_TYPES]
    bad: List[Dict[str, Any]] = []
    nan_only_shapes = set()
    n_ok = 0
    for api, kw, verify, cols in runs:
        kind, res = _call(t.tbl, api, kw, fd, cols, verify)
        out["executions"] += 1
        where = {"api": api, "kwargs": kw, "verify_checksums": verify, "columns": cols}
        if kind == "raise":
            bad.append(dict(where, cls="raise", sig=f"unexpected-raise:{api}:{'verify' if verify else 'noverify'}:{ops}:{res.split(':')[0]}",
                            what=f"raised {res}"))
            continue
        want_cols = set(["a", "b", "rid"] if cols is None else cols)
        if any(set(r) != want_cols for r in res):
            bad.append(dict(where, cls="columns", sig=f"projection-columns:{api}:{'verify' if verify else 'noverify'}",
                            what=f"rows carry columns {sorted(set(res[0]))} instead of {sorted(want_cols)}"))
            continue
        got = _bag(res)
        exp = _bag(_project(r, cols) for r in expected)
        if got == exp:
            n_ok += 1
            continue
        missing, extra = exp - got, got - exp
        vtag = "verify" if verify else "noverify"
        # is the deviation confined to rows whose filtered value is NaN?  (for the NaN-semantics rule below)
        lo = _bag(_project(r, cols) for r in exp_nonan)
        nanbag = _bag(_project(r, cols) for r in nan_rows)
        nan_only = not (lo - got) and not ((got - lo) - nanbag)
        if nan_only:
            nan_only_shapes.add((sum(missing.values()), sum(extra.values())))
        detail = dict(where, what=f"{sum(missing.values())} row(s) missing {sorted(missing)[:3]}, {sum(extra.values())} extra {sorted(extra)[:3]}",
                      got=sorted(got.elements())[:40], expected=sorted(exp.elements())[:40], cls="nan" if nan_only else "rows")
        # Rows that are only LOST: name the class of every lost row.  Two classes are what row-group statistics
        # cannot see (NaN under != / not_in) or misrepresent (the zero of an all-zero float row group under in).
        kinds = set()
        if missing and not extra:
            for k in missing:
                ks = set()
                for r in expected:
                    if row_key(_project(r, cols)) == k:
                        ks |= _lost_row_kinds(r, exprs, fl_cols)
                kinds |= ks or {("other", "")}
        if kinds and ("other", "") not in kinds:
            for kind_, op_ in sorted(kinds):
                bad.append(dict(detail, sig=f"{kind_}-row-lost:{api}:{vtag}:{op_}"))
            continue
        by_key: Dict[str, List[Dict[str, Any]]] = {}
        for r in all_rows:
            by_key.setdefault(row_key(_project(r, cols)), []).append(r)
        classes = set()
        for k in list(missing) + list(extra):
            for r in by_key.get(k, [{}])[:1]:
                for c in fcols:
                    classes.add(_classify(r.get(c, "?")))
        direction = "missing" if missing and not extra else ("extra" if extra and not missing else "both")
        bad.append(dict(detail, sig=f"wrong-rows:{api}:{vtag}:{ops}:{direction}:{'/'.join(sorted(classes)) or '?'}"))
    if not bad:
        return
    # NaN rows: SQL gives NaN no single meaning; the reference is IEEE.  If EVERY read program deviates
    # from it in the same way, and only on NaN rows, the APIs agree on another NaN semantics: note, not violation.
    if n_ok == 0 and all(b["cls"] == "nan" for b in bad) and len(nan_only_shapes) == 1:
        out["notes"]["nan_semantics_drift"] = out["notes"].get("nan_semantics_drift", 0) + 1
        return
    for b in bad:
        payload = dict(ctxinfo, exprs=exprs, filter=repr(fd), **{k: v for k, v in b.items() if k not in ("sig", "what", "cls")})
        out["violations"].append((b["sig"], f"{b['api']}({_kwtxt(b)}) with filter {fd!r} on columns a:{t.types['a']}, b:{t.types['b']}: {b['what']}", payload))


def _kwtxt(b: Dict[str, Any]) -> str:
    parts = [f"{k}={v!r}" for k, v in b["kwargs"].items()]
    parts.append(f"verify_checksums={b['verify_checksums']}")
    if b["columns"] is not None:
        parts.append(f"columns={b['columns']}")
    return ", ".join(parts)


def _runs_for(projs: List[Optional[List[str]]], k: int, full: bool) -> List[Tuple[str, Dict[str, Any], bool, Optional[List[str]]]]:
    """The 14 (api, kwargs, verify) programs; `full`: each with every exported projection (columns=None is
    one of them); otherwise each program with ONE projection, rotating with the program and the filter index,
    so that across the filters of a table every program meets every projection, with and without."""
    runs = []
    j = 0
    for api, kw in VARIANTS:
        for verify in (True, False):
            if full:
                for p in projs:
                    runs.append((api, kw, verify, p))
            else:
                runs.append((api, kw, verify, projs[(k + j) % len(projs)]))
            j += 1
    return runs


# ------------------------------------------------------------------------------------------------
# worker jobs (run in separate processes; return plain data)
# ------------------------------------------------------------------------------------------------

def _new_out() -> Dict[str, Any]:
    return {"violations": [], "notes": {}, "executions": 0, "pairs": [], "drift": 0, "samples": []}


def _job_engine(job: Dict[str, Any]) -> Dict[str, Any]:
    """One table per type pair holding many abstract files; every filter is evaluated over the whole
    table by every read program; expected = union over the files of the reference row sets."""
    out = _new_out()
    types = job["types"]
    files: List[List[Dict[str, int]]] = job["files"]
    filters: List[List[Dict[str, Any]]] = job["filters"]
    sel: Dict[str, List[int]] = job["sel"]            # "fi,ei" -> reference row indices of file fi for filter ei
    lost: Dict[str, List[int]] = job["lost"]          # rows the model predicts scan(noverify) loses (none for the code as it is)
    projs = job["projs"]
    r = rng(job["seed"], "c12-engine", types["a"], types["b"])
    t = _Table(job["scratch"], types, files)
    try:
        for ei, exprs in enumerate(filters):
            fd = _filter_dict(exprs, types, r)
            expected = [row for fi, ri, row in t.rows if ri in sel.get(f"{fi - 1},{ei}", [])]
            runs = _runs_for(projs, ei, job["full"])
            before = len(out["violations"])
            _judge_filter(t, exprs, fd, expected, runs, out,
                          {"mode": "engine", "types": types, "files": files})
            # model drift: the transcription predicts a row loss on scan(noverify) that did not show, or vice versa
            predicted = any(lost.get(f"{fi},{ei}") for fi in range(len(files)))
            seen = any(s.split(":")[0] in ("nan-row-lost", "zero-row-lost") and ":scan:noverify:" in s for s, _, _ in out["violations"][before:])
            if predicted != seen:
                out["drift"] += 1
            for fi in range(len(files)):
                out["pairs"].append((fi, ei))
            if ei == 0:
                out["samples"].append({"types": types, "filter": repr(fd), "files_in_table": len(files),
                                       "expected_rids": sorted(x["rid"] for x in expected)[:12], "programs_run": len(runs)})
    finally:
        t.close()
    return out


def _job_layouts(job: Dict[str, Any]) -> Dict[str, Any]:
    """Genuinely multi-file layouts and the empty table: one real table per layout."""
    out = _new_out()
    types = job["types"]
    projs = job["projs"]
    r = rng(job["seed"], "c12-layouts", types["a"], types["b"])
    for li, (files, cases) in enumerate(job["layouts"]):
        t = _Table(job["scratch"], types, files)
        try:
            for ci, (exprs, selrows) in enumerate(cases):
                fd = _filter_dict(exprs, types, r)
                want = {(f, rr) for f, rr in selrows}
                expected = [row for fi, ri, row in t.rows if (fi, ri) in want]
                runs = _runs_for(projs, li + ci, job["full"])
                _judge_filter(t, exprs, fd, expected, runs, out, {"mode": "layout", "types": types, "files": files})
                out["pairs"].append((li, ci))
        finally:
            t.close()
    return out


_CANON = {sp.lower(): op for op, sps in ALIASES.items() for sp in sps}


def _canon(shape: Dict[str, Any]) -> str:
    """Canonical operator of a pair shape ("?" for unknown spellings, "nonstring" for non-strings)."""
    if not shape["opIsStr"]:
        return "nonstring"
    return _CANON.get(shape["op"].lower(), "?")


def _conc_cond(shape: Dict[str, Any], t: str) -> List[Any]:
    """Concrete Python realisations of an abstract filter-condition shape for a column of type `t`
    ([] when the shape cannot be realised for that type: a "strscalar" is a str, which only a string
    column compares with; conversely every scalar of a string column is a str, so the "non-iterable
    scalar" operand of a set operator does not exist there)."""
    def cv(a: int) -> Any:
        return conc(t, a)

    k, vk, xs = shape["k"], shape["vk"], shape["xs"]
    if vk == "strscalar":
        if t != "string":
            return []
        vk = "scalar"
    elif vk == "scalar" and t == "string":
        if k == "pair" and _canon(shape) in ("in", "not_in"):
            return []
    if k == "bare":
        if vk == "scalar":
            return [cv(xs[0])]
        if vk == "none":
            return [None]
        if vk == "hetero":
            return [(">", cv(0), cv(2)), [">", cv(0)], ("between", cv(0), cv(2))]
        if vk == "homog":
            return [(">",), (), (cv(0), cv(0), cv(2)), [cv(0), cv(2)]]
        raise MachineryError(f"unknown bare shape {shape}")
    op: Any = shape["op"]
    if not shape["opIsStr"]:
        op = {"5": 5, "None": None}[op]
    if vk == "scalar":
        vals = [cv(xs[0])]
    elif vk == "none":
        vals = [None]
    elif vk == "seq":
        items = [cv(x) for x in xs]
        vals = [items, tuple(items)]
    elif vk == "mixed":
        vals = [[cv(xs[0]), 5 if t == "string" else "x"]]
    else:
        raise MachineryError(f"unknown value kind {shape}")
    return [(op, v) for v in vals]


def _shape_class(shape: Dict[str, Any]) -> str:
    """Class of a condition shape by MEANING (canonical operator, operand kind), not by spelling."""
    if shape["k"] == "bare":
        return f"bare-{shape['vk']}"
    if not shape["opIsStr"]:
        return "nonstring-op"
    return f"pair:{_canon(shape)}:{shape['vk']}{len(shape['xs'])}"


def _job_malformed(job: Dict[str, Any]) -> Dict[str, Any]:
    """Filter-condition shapes through every read API on real tables (kind "P" cases)."""
    out = _new_out()
    types = job["types"]
    for files, cases in job["layouts"]:
        t = _Table(job["scratch"], types, files)
        try:
            n_rows = len(t.rows)
            for pc in cases:
                conds_a = _conc_cond(pc["cond"], types["a"])
                conds_b = [None] if pc["condB"]["k"] == "absent" else _conc_cond(pc["condB"], types["b"])
                want = {(f, rr) for f, rr in pc["sel"]}
                expected = [row for fi, ri, row in t.rows if (fi, ri) in want]
                uwant = {(f, rr) for f, rr in pc["understoodSel"]}
                understood = [row for fi, ri, row in t.rows if (fi, ri) in uwant]
                cls = _shape_class(pc["cond"]) + ("" if pc["condB"]["k"] == "absent" else "&" + _shape_class(pc["condB"]))
                for ca in conds_a:
                    for cb in conds_b:
                        fd = {"a": ca} if pc["condB"]["k"] == "absent" else {"a": ca, "b": cb}
                        for api, kw in job["variants"]:
                            for verify in (True, False):
                                kind, res = _call(t.tbl, api, kw, fd, None, verify)
                                out["executions"] += 1
                                model = pc["mScan"] if api == "scan" else pc["mBatches"]
                                observed = "raise" if kind == "raise" else ("rows" if res else "empty")
                                if observed != model:
                                    out["drift"] += 1
                                where = {"mode": "malformed", "types": types, "files": files, "filter": repr(fd), "api": api,
                                         "kwargs": kw, "verify_checksums": verify, "columns": None, "cond": pc["cond"], "condB": pc["condB"]}
                                if pc["refMalformed"]:
                                    if kind == "raise":
                                        continue
                                    if pc["strAsSet"]:
                                        # a str operand of in / not_in is iterated character by character
                                        sig = f"str-operand-as-value-set:{api}"
                                        what = (f"answered the question for the set of its characters ({len(res)} row(s))"
                                                if _bag(res) == _bag(understood) else f"returned {len(res)} row(s)")
                                    elif res:
                                        sig = f"malformed-reinterpreted:{api}:{cls}"
                                        what = f"returned {len(res)} row(s) instead of raising"
                                    else:
                                        if not files:
                                            situation = "empty-table"
                                        elif n_rows == 0:
                                            situation = "no-rows"
                                        elif not expected:
                                            situation = "wellformed-part-selects-nothing"
                                        else:
                                            situation = "rows-at-stake:" + cls
                                        sig = f"malformed-accepted:{api}:{situation}"
                                        what = "returned [] instead of raising"
                                    out["violations"].append((sig, f"{api}({_kwtxt(where)}) accepts the malformed filter {fd!r} "
                                                                   f"on a table with {len(files)} file(s)/{n_rows} row(s): {what}", where))
                                else:
                                    if kind == "raise":
                                        out["violations"].append((f"wellformed-rejected:{api}:{cls}",
                                                                  f"{api}({_kwtxt(where)}) raises {res} for the well-formed filter {fd!r}", where))
                                    elif _bag(res) != _bag(expected):
                                        out["violations"].append((f"wrong-rows-spelling:{api}:{cls}",
                                                                  f"{api}({_kwtxt(where)}) with filter {fd!r} returns rids "
                                                                  f"{sorted(x['rid'] for x in res)} instead of {sorted(x['rid'] for x in expected)}",
                                                                  dict(where, got=[row_key(x) for x in res], expected=[row_key(x) for x in expected])))
                out["pairs"].append((len(files), cls))
        finally:
            t.close()
    return out


def _job_extension(job: Dict[str, Any]) -> Dict[str, Any]:
    """Cross-kind literals, NaN literals, literals outside the column type's range, empty projection.
    Observations only (outside the claimed domain): what every read program does, judged by Python's
    exact int/float comparison."""
    import struct

    from datashard import Schema, create_table

    out = _new_out()
    f32 = lambda x: struct.unpack("f", struct.pack("f", x))[0]   # noqa: E731
    nan = float("nan")
    d = tempfile.mkdtemp(prefix="c12x-", dir=job["scratch"])
    try:
        schema = Schema(schema_id=1, fields=[
            {"id": 1, "name": "l", "type": "long", "required": False}, {"id": 2, "name": "d", "type": "double", "required": False},
            {"id": 3, "name": "i", "type": "int", "required": False}, {"id": 4, "name": "f", "type": "float", "required": False},
            {"id": 9, "name": "rid", "type": "long", "required": True}])
        tbl = create_table(os.path.join(d, "t"), schema)
        L = [-(2 ** 63), -1, 0, 1, 2 ** 53, 2 ** 53 + 1, 2 ** 63 - 1, None]
        D = [float("-inf"), -0.5, 0.0, 1.0, 2.0 ** 53, nan, float("inf"), None]
        I = [-(2 ** 31), -1, 0, 1, 7, 65536, 2 ** 31 - 1, None]
        F = [float("-inf"), -0.5, 0.0, 1.0, f32(0.1), nan, float("inf"), None]
        rows = [{"l": L[k], "d": D[k], "i": I[k], "f": F[k], "rid": k} for k in range(8)]
        tbl.append_records(rows[:4])
        tbl.append_records(rows[4:])
        small = create_table(os.path.join(d, "s"), schema)      # small magnitudes only
        small.append_records([{"l": k, "d": float(k), "i": k, "f": float(k), "rid": k} for k in range(3)])

        def cmp(op: str, v: Any, lit: Any) -> Optional[bool]:
            if v is None or lit is None:
                return None
            return {"==": v == lit, "!=": v != lit, "<": v < lit, "<=": v <= lit, ">": v > lit, ">=": v >= lit}[op]

        def oracle(col: str, op: str, lit: Any) -> Any:
            if op == "in":
                return lambda r: None if r[col] is None else any(r[col] == x for x in lit if x is not None)
            if op == "not_in":
                return lambda r: None if r[col] is None else not any(r[col] == x for x in lit if x is not None)
            return lambda r: cmp(op, r[col], lit)

        probes: List[Tuple[str, Any, str, str, Any]] = [
            ("float literal on long column", tbl, "l", ">", 0.5), ("integral float literal on long column", tbl, "l", "==", 1.0),
            ("float literal on small long column", small, "l", ">", 0.5), ("float set on long column", tbl, "l", "in", [1.0, 2.0 ** 53]),
            ("mixed int/float set on long column", tbl, "l", "in", [1, 0.5]), ("int literal beyond int64 on long column", tbl, "l", ">", 2 ** 63),
            ("int literal below int64 on long column", tbl, "l", ">", -(2 ** 63) - 1), ("int set beyond int64 on long column", tbl, "l", "in", [2 ** 64]),
            ("inf literal on long column", tbl, "l", "<=", float("inf")), ("NaN literal on long column", tbl, "l", "!=", nan),
            ("int literal on double column", tbl, "d", "==", 1), ("int literal 2^53 on double column", tbl, "d", "==", 2 ** 53),
            ("int literal 2^53+1 on double column", tbl, "d", "==", 2 ** 53 + 1), ("int literal 2^53+1 (<) on double column", tbl, "d", "<", 2 ** 53 + 1),
            ("int set 2^53+1 on double column", tbl, "d", "in", [2 ** 53 + 1]), ("int set on double column", tbl, "d", "in", [1, 0]),
            ("int not_in on double column", tbl, "d", "not_in", [1]), ("int literal beyond int64 on double column", tbl, "d", "<", 2 ** 64),
            ("NaN literal == on double column", tbl, "d", "==", nan), ("NaN literal != on double column", tbl, "d", "!=", nan),
            ("NaN literal < on double column", tbl, "d", "<", nan), ("NaN in set on double column", tbl, "d", "in", [nan]),
            ("NaN in not_in set on double column", tbl, "d", "not_in", [nan]),
            ("int literal beyond int32 on int column", tbl, "i", "==", 2 ** 31), ("int literal beyond int32 (<) on int column", tbl, "i", "<", 2 ** 40),
            ("int set beyond int32 on int column", tbl, "i", "in", [2 ** 40, 1]), ("float literal on int column", tbl, "i", ">", 0.5),
            ("double literal 0.1 == on float column", tbl, "f", "==", 0.1), ("double literal 0.1 in set on float column", tbl, "f", "in", [0.1]),
            ("double literal 0.1 not_in on float column", tbl, "f", "not_in", [0.1]), ("double literal 0.1 <= on float column", tbl, "f", "<=", 0.1),
            ("float32-exact literal on float column", tbl, "f", "==", f32(0.1)), ("int literal on float column", tbl, "f", "==", 1),
            ("int literal 2^24+1 on float column", tbl, "f", "==", 2 ** 24 + 1),
        ]
        obs: Dict[str, Any] = {}
        for name, tb, col, op, lit in probes:
            fd = {col: (op, lit)}
            want = oracle(col, op, lit)
            all_rows = tb.scan(verify_checksums=False)
            exp = sorted(r["rid"] for r in all_rows if want(r) is True)
            results = {}
            for api, kw in VARIANTS:
                for verify in (True, False):
                    kind, res = _call(tb, api, kw, fd, None, verify)
                    out["executions"] += 1
                    results[f"{api}{kw or ''}:{'v' if verify else 'nv'}"] = res.split(":")[0] if kind == "raise" else sorted(x["rid"] for x in res)
            distinct = {json.dumps(v) for v in results.values()}
            if len(distinct) > 1:
                verdict = "APIS DISAGREE: " + json.dumps({k: v for k, v in results.items()}, default=str)[:600]
            else:
                v = next(iter(results.values()))
                if isinstance(v, str):
                    verdict = f"all raise {v}"
                elif v == exp:
                    verdict = f"all return the exact answer {v}"
                else:
                    verdict = f"all return {v}; exact comparison gives {exp}"
            obs[f"{name}: {fd!r}"] = verdict
        # empty projection
        ep = {}
        for api, kw in VARIANTS:
            for verify in (True, False):
                kind, res = _call(small, api, kw, {"l": (">=", 1)}, [], verify)
                out["executions"] += 1
                ep[f"{api}{kw or ''}:{'v' if verify else 'nv'}"] = res if kind == "raise" else f"{len(res)} row(s)"
        obs["empty projection columns=[] with a filter matching 2 rows"] = ep if len(set(map(str, ep.values()))) > 1 else next(iter(ep.values()))
        # ---- claimed (violations, not observations) ----
        # (1) the null operators take a flag: ("is_null", False) is the complement, in every API (it used to be ignored)
        # (2) the operand of in / not_in may be any iterable, also a one-shot one (it used to be consumed by the first walk)
        for api, kw in VARIANTS:
            for verify in (True, False):
                def rids(fd_: Any) -> Any:
                    kind_, res_ = _call(tbl, api, kw, fd_, None, verify)
                    out["executions"] += 1
                    return res_.split(":")[0] if kind_ == "raise" else sorted(x["rid"] for x in res_)

                for col in ("l", "d"):
                    for a_, b_ in ((("is_null", False), ("is_not_null", True)), (("is_not_null", False), ("is_null", True)),
                                   (("isnull", False), ("notnull", True))):
                        got, want_ = rids({col: a_}), rids({col: b_})
                        if got != want_:
                            out["violations"].append((f"null-flag-ignored:{api}", f"{api}({_kwtxt({"kwargs": kw, "verify_checksums": verify, "columns": None})}) with filter {{{col!r}: {a_!r}}} returns rows {got}, "
                                                      f"but the complement {{{col!r}: {b_!r}}} returns {want_}: the False flag is reinterpreted", {"api": api, "filter": repr({col: a_})}))
                    for op_ in ("in", "not_in"):
                        vals = [1, 0] if col == "l" else [1.0, 0.0]
                        got, want_ = rids({col: (op_, (v for v in vals))}), rids({col: (op_, list(vals))})
                        if got != want_:
                            out["violations"].append((f"one-shot-operand:{api}:{op_}", f"{api}({_kwtxt({"kwargs": kw, "verify_checksums": verify, "columns": None})}) with filter {{{col!r}: ({op_!r}, <generator of {vals}>)}} returns rows {got}, "
                                                      f"with the same values as a list {want_}", {"api": api, "op": op_, "values": vals}))
        out["notes"]["extension"] = obs
    finally:
        shutil.rmtree(d, ignore_errors=True)
    return out


_JOBS = {"engine": _job_engine, "layouts": _job_layouts, "malformed": _job_malformed, "extension": _job_extension}


def _run_job(job: Dict[str, Any]) -> Dict[str, Any]:
    import time

    t0 = time.time()
    try:
        res = _JOBS[job["kind"]](job)
        res["job"] = {"kind": job["kind"], "types": job.get("types")}
        res["wall_s"] = time.time() - t0
        return res
    except MachineryError as e:
        return {"machinery": str(e)}
    except Exception:  # noqa: BLE001
        return {"machinery": traceback.format_exc()}


# ------------------------------------------------------------------------------------------------
# parser differential (in-process)
# ------------------------------------------------------------------------------------------------

_OPNAME = {"EQ": "==", "NE": "!=", "LT": "<", "LE": "<=", "GT": ">", "GE": ">=", "IN": "in", "NOT_IN": "not_in",
           "IS_NULL": "is_null", "IS_NOT_NULL": "is_not_null"}


def _parser_differential(ctx: Ctx, pcases: List[Dict[str, Any]]) -> Tuple[int, int]:
    import pyarrow as pa

    from datashard.filters import parse_filter_dict, to_pyarrow_compute_expression

    probes = {"long": pa.table({"a": pa.array([0, None, 5], pa.int64())}), "string": pa.table({"a": pa.array([" ", None, "9"], pa.string())})}
    seen = set()
    n = drift = 0
    for pc in pcases:
        if pc["grp"] != "one":
            continue
        key = json.dumps(pc["cond"], sort_keys=True)
        if key in seen:
            continue
        seen.add(key)
        shape = pc["cond"]
        ptype = "string" if shape["vk"] == "strscalar" else "long"
        for cond in _conc_cond(shape, ptype):
            n += 1
            stage = "parse"
            parsed = None
            try:
                parsed = parse_filter_dict({"a": cond})
                stage = "build"
                ce = to_pyarrow_compute_expression(parsed)
                stage = "exec"
                probes[ptype].filter(ce)
                stage = "ok"
            except Exception:  # noqa: BLE001
                pass
            ctx.count_case(("parser", key, repr(cond)), nontrivial=True)
            cls = _shape_class(shape)
            if pc["refMalformed"]:
                if stage == "ok" and pc["strAsSet"]:
                    ctx.violation("str-operand-as-value-set:parser",
                                  f"the str operand of {cond!r} is not rejected: parse_filter_dict keeps it and _build_condition iterates its characters",
                                  {"mode": "parser", "cond": repr(cond), "shape": shape})
                elif stage == "ok":
                    ctx.violation(f"parser-accepts-malformed:{cls}",
                                  f"the malformed filter condition {cond!r} is accepted by parse/build/evaluate as {[(e.op.name, e.value) for e in parsed]}",
                                  {"mode": "parser", "cond": repr(cond), "shape": shape})
                elif stage != pc["stage"]:
                    drift += 1
            else:
                if stage != "ok":
                    ctx.violation(f"parser-rejects-wellformed:{cls}", f"the well-formed filter condition {cond!r} raises at the {stage} stage",
                                  {"mode": "parser", "cond": repr(cond), "shape": shape})
                    continue
                got = []
                for e in parsed:
                    op = _OPNAME[e.op.name]
                    if op in ("in", "not_in"):
                        lit = sorted((NULL if v is None else v) for v in e.value)
                    elif op in ("is_null", "is_not_null"):
                        lit = [0]
                    else:
                        lit = [NULL if e.value is None else e.value]
                    got.append({"col": e.column, "op": op, "lit": lit})
                # the reference expressions are over abstract values: concretise them for long
                want = [{"col": x["col"], "op": x["op"],
                         "lit": ([0] if x["op"] in ("is_null", "is_not_null") else
                                 sorted(NULL if v == NULL else conc(ptype, v) for v in x["lit"]) if x["op"] in ("in", "not_in") else
                                 [NULL if v == NULL else conc(ptype, v) for v in x["lit"]])} for x in pc["refExprs"]]
                if got != want:
                    ctx.violation(f"parser-misreads:{cls}", f"filter condition {cond!r} is parsed as {got}, the reference grammar says {want}",
                                  {"mode": "parser", "cond": repr(cond), "shape": shape, "got": got, "want": want})
    return n, drift


# ------------------------------------------------------------------------------------------------
# planning
# ------------------------------------------------------------------------------------------------

def _plan_engine(ctx: Ctx, quick: bool, single: List[Dict[str, Any]], projs: List[Optional[List[str]]], scratch: str,
                 pairs: List[Tuple[str, str]]) -> List[Dict[str, Any]]:
    files: Dict[str, List[Dict[str, int]]] = {}
    filts: Dict[str, List[Dict[str, Any]]] = {}
    table: Dict[Tuple[str, str], Dict[str, Any]] = {}
    for c in single:
        f = c["files"][0]
        fk, ek = _fkey(f), _ekey(c["exprs"])
        files.setdefault(fk, f)
        filts.setdefault(ek, c["exprs"])
        table[(fk, ek)] = c
    fkeys, ekeys = sorted(files), sorted(filts)
    if len(table) != len(fkeys) * len(ekeys):
        raise MachineryError("the exported single-file cases are not a full (file x filter) grid")
    big = max(fkeys, key=lambda k: len(files[k]))
    jobs = []
    for ta, tb in pairs:
        types = {"a": ta, "b": tb}
        r = rng(ctx.seed, "c12-plan", ta, tb)
        ok_files = [k for k in fkeys if _case_concretisable([files[k]], [], types)]
        ok_filts = [k for k in ekeys if _case_concretisable([], filts[k], types)]
        # files: the empty file, the 12-row file (every row kind: one read covers all row-level cases),
        # the statistics-sensitive files (one distinct value + NaN/NULL), plus a seeded sample
        core = [k for k in ok_files if not files[k] or k == big]
        sens = [k for k in ok_files if k not in core and len(files[k]) == 2 and
                any(len({row[c] for row in files[k]} - {NULL, NAN}) == 1 and {row[c] for row in files[k]} & {NULL, NAN} for c in ("a", "b"))]
        rest = [k for k in ok_files if k not in core and k not in sens]
        special = [k for k in ok_filts if _expr_special(filts[k]) and filts[k]]
        plain = [k for k in ok_filts if k not in special and filts[k]]
        chunks = 1
        if quick:
            chosen_f = core + r.sample(sens, min(4, len(sens))) + r.sample(rest, min(3, len(rest)))
            chosen_e = [_ekey([])] + r.sample(special, min(21, len(special))) + r.sample(plain, min(4, len(plain)))
        elif (ta, tb) in FULL_GRID_PAIRS:
            # thorough, full grid: every file of <= 2 rows, the 12-row file, a sample of the 3-row files; every filter
            small = [k for k in ok_files if len(files[k]) <= 2 or k == big]
            three = [k for k in ok_files if len(files[k]) == 3]
            chosen_f = small + r.sample(three, min(12, len(three)))
            chosen_e = ok_filts
            chunks = 6
        else:
            chosen_f = core + r.sample(sens, min(6, len(sens))) + r.sample(rest, min(4, len(rest)))
            chosen_e = [_ekey([])] + r.sample(special, min(50, len(special))) + r.sample(plain, min(10, len(plain)))
        flist = [files[k] for k in chosen_f]
        elist = [filts[k] for k in chosen_e]
        sel, lost = {}, {}
        fckey = "".join(c for c in ("a", "b") if types[c] in FLOAT_TYPES) or "none"
        for fi, fk in enumerate(chosen_f):
            for ei, ek in enumerate(chosen_e):
                c = table[(fk, ek)]
                rows = [rr for _, rr in c["sel"]]
                if rows:
                    sel[f"{fi},{ei}"] = rows
                if c["lost"][fckey]:
                    lost[f"{fi},{ei}"] = [rr for _, rr in c["lost"][fckey]]
        for ch in range(chunks):
            idx = [ei for ei in range(len(elist)) if ei % chunks == ch]
            remap = {ei: n for n, ei in enumerate(idx)}
            sub = lambda d: {f"{k.split(',')[0]},{remap[int(k.split(',')[1])]}": v for k, v in d.items() if int(k.split(',')[1]) in remap}  # noqa: E731
            jobs.append({"kind": "engine", "types": types, "files": flist, "filters": [elist[ei] for ei in idx], "sel": sub(sel), "lost": sub(lost),
                         "projs": projs, "seed": ctx.seed + ch, "scratch": scratch, "full": False})
    return jobs


def _plan_layouts(ctx: Ctx, quick: bool, multi: List[Dict[str, Any]], projs: List[Optional[List[str]]], scratch: str,
                  pairs: List[Tuple[str, str]]) -> List[Dict[str, Any]]:
    by_layout: Dict[str, List[Dict[str, Any]]] = {}
    for c in multi:
        by_layout.setdefault(json.dumps(c["files"], sort_keys=True), []).append(c)
    lkeys = sorted(by_layout)
    jobs = []
    for pi, (ta, tb) in enumerate(pairs):
        types = {"a": ta, "b": tb}
        r = rng(ctx.seed, "c12-layout-plan", ta, tb)
        ok = [k for k in lkeys if _case_concretisable(json.loads(k), [], types)]
        empty = [k for k in ok if json.loads(k) == []]
        three = [k for k in ok if len(json.loads(k)) == 3]
        two = [k for k in ok if len(json.loads(k)) == 2]
        full = False
        if quick:
            chosen = empty + r.sample(three, min(2, len(three))) + r.sample(two, min(1, len(two)))
            nf = 4
        elif pi == 1:
            chosen, nf = ok, 10 ** 6                       # every layout, every filter of the reduced set (int/float)
        elif pi == 0:
            chosen, nf, full = empty + r.sample(three, 5) + r.sample(two, 3), 10 ** 6, True     # every projection with every program
        else:
            chosen, nf = empty + r.sample(three, min(12, len(three))) + r.sample(two, min(6, len(two))), 10 ** 6
        layouts = []
        for k in chosen:
            cs = [c for c in by_layout[k] if _case_concretisable([], c["exprs"], types)]
            if len(cs) > nf:
                cs = r.sample(cs, nf)
            layouts.append((json.loads(k), [(c["exprs"], c["sel"]) for c in cs]))
        for i in range(0, len(layouts), 20):
            jobs.append({"kind": "layouts", "types": types, "layouts": layouts[i:i + 20], "projs": projs, "seed": ctx.seed + i, "scratch": scratch, "full": full})
    return jobs


def _plan_malformed(ctx: Ctx, quick: bool, pcases: List[Dict[str, Any]], scratch: str) -> List[Dict[str, Any]]:
    """All shapes reach the real parser in-process (_parser_differential); through the read APIs go, per
    table layout, one representative per (operator meaning, value kind) class in quick, all in thorough."""
    from ..common import digest

    by_layout: Dict[str, List[Dict[str, Any]]] = {}
    for pc in pcases:
        by_layout.setdefault(json.dumps(pc["files"], sort_keys=True), []).append(pc)
    jobs = []
    type_sets = [{"a": "long", "b": "double"}, {"a": "string", "b": "float"}] + ([] if quick else [{"a": "date", "b": "timestamp"}])
    for ti, types in enumerate(type_sets):
        layouts = []
        for lk in sorted(by_layout):
            cs = by_layout[lk]
            if quick and ti > 0:
                # quick: the string column only adds the shapes whose operand is a str, on the layouts with rows
                cs = [pc for pc in cs if pc["cond"]["vk"] == "strscalar" and len(json.loads(lk)) == 2]
            if quick or ti > 0:
                reps: Dict[str, Dict[str, Any]] = {}
                for pc in sorted(cs, key=lambda x: digest((x["cond"], x["condB"], ctx.seed))):
                    ref = "M" if pc["refMalformed"] else "/".join(e["op"] for e in pc["refExprs"])
                    cls = (pc["cond"]["k"], pc["cond"]["opIsStr"], ref, pc["stage"], pc["cond"]["vk"], len(pc["cond"]["xs"]),
                           json.dumps(pc["condB"], sort_keys=True), pc["cond"]["xs"] if pc["grp"] == "two" else None)
                    reps.setdefault(json.dumps(cls), pc)
                cs = list(reps.values())
            if cs:
                layouts.append((json.loads(lk), cs))
        # split over a few jobs
        variants = VARIANTS if not quick else [VARIANTS[0], VARIANTS[4], VARIANTS[6]]
        for lay in layouts:
            jobs.append({"kind": "malformed", "types": types, "layouts": [lay], "variants": variants, "seed": ctx.seed, "scratch": scratch})
    return jobs


# ------------------------------------------------------------------------------------------------
# entry points
# ------------------------------------------------------------------------------------------------

def _consts(sp: bool, vf: bool, mr: int, fp: bool) -> Dict[str, Any]:
    return {"StatsPushdown": sp, "ValidateFirst": vf, "MaxRows": mr, "FullProj": fp}


def _tlc_faithful(ctx: Ctx, quick: bool, out: str) -> None:
    """The model of the code as it is (StatsPushdown = FALSE, ValidateFirst = TRUE): every theorem incl. C12
    itself (ApiConforms); exports the case table."""
    max_rows = 2 if quick else 3
    cfg = tlc.make_cfg(spec="Spec", constants=_consts(False, True, max_rows, not quick), invariants=INVS_FAITHFUL, postcondition="Export")
    ra = tlc.run_tlc("MC_FilterSel", cfg, env={"VERIF_OUT": out}, timeout_s=1500, workers=6 if quick else 8,
                     label=f"MC_FilterSel code as it is (~StatsPushdown, ValidateFirst) MaxRows={max_rows}")
    ctx.add_tlc(ra)
    if not ra.ok:
        ctx.violation("model:" + ",".join(ra.violated or ["error"]),
                      f"TLC: {ra.violated} violated in the model of the code as it is (FilterSel.tla transcriptions)", ra.error_trace[:4000])
        raise MachineryError("the model of the code as it is does not satisfy its theorems; case table not usable")


def _tlc_companions(quick: bool) -> Dict[str, Any]:
    """Anti-vacuity: ApiConforms must FAIL on each model of the code as it was before the repairs
    (2813326: statistics pushdown, e9269c1: late validation / lenient parser).  thorough also re-proves the
    characterisation of those defects (ApiConformsModuloKnown) on the pre-repair model.
    Runs in a background thread while the binding executes."""
    fails = []
    for name, sp, vf in (("both pre-repair defects", True, False), ("only late validation / lenient parser (pre-e9269c1)", False, False),
                         ("only statistics pushdown (pre-2813326)", True, True)):
        cfg = tlc.make_cfg(spec="Spec", constants=_consts(sp, vf, 2, False), invariants=["ApiConforms"])
        fails.append((name, tlc.run_tlc("MC_FilterSel", cfg, timeout_s=600, workers=2, label=f"MC_FilterSel {name} (must fail)")))
    charac = None
    if not quick:
        cfg = tlc.make_cfg(spec="Spec", constants=_consts(True, False, 2, False), invariants=["ParserConforms", "StatsArms", "ApiConformsModuloKnown"])
        charac = tlc.run_tlc("MC_FilterSel", cfg, timeout_s=900, workers=4, label="MC_FilterSel pre-repair model: deviations confined to D1-D3")
    return {"fails": fails, "charac": charac}


def _check_companions(ctx: Ctx, comp: Dict[str, Any]) -> None:
    for name, res in comp["fails"]:
        if "ApiConforms" not in res.violated:
            raise MachineryError(f"anti-vacuity: ApiConforms should fail with {name} modelled, but TLC reports {res.violated or 'no violation'}")
    ctx.cov["anti_vacuity"] = ("ApiConforms fails in TLC on the pre-repair models (statistics pushdown; late validation / lenient parser; both); "
                               "it holds on the model of the code as it is (StatsPushdown=FALSE, ValidateFirst=TRUE)")
    if comp["charac"] is not None:
        if not comp["charac"].ok:
            raise MachineryError(f"the pre-repair model deviates from C12 outside the characterised defects: {comp['charac'].violated}")
        ctx.add_tlc(comp["charac"])


def _collect(ctx: Ctx, res: Dict[str, Any]) -> None:
    if "machinery" in res:
        raise MachineryError("worker failed:\n" + res["machinery"])
    for sig, what, payload in res["violations"]:
        ctx.violation(sig, what, payload)
    ctx.count_traces(res["executions"])
    ctx.cov["model_drift_notes"] = ctx.cov.get("model_drift_notes", 0) + res["drift"]
    for k, v in res["notes"].items():
        if isinstance(v, int):
            ctx.cov[k] = ctx.cov.get(k, 0) + v
        else:
            ctx.cov[k] = v
    for s in res["samples"]:
        ctx.sample(s)


def run(ctx: Ctx) -> None:
    import time

    quick = ctx.tier == "quick"
    scratch = scratch_dir("c12")
    out = os.path.join(scratch, "cases.ndjson")
    t0 = time.time()
    _tlc_faithful(ctx, quick, out)
    t_tlc = time.time() - t0
    bg = concurrent.futures.ThreadPoolExecutor(max_workers=1)
    companions = bg.submit(_tlc_companions, quick)

    recs = [json.loads(line) for line in open(out)]
    meta = recs[0]
    single = [c for c in recs if c["kind"] == "S" and c["grp"] == "single"]
    multi = [c for c in recs if c["kind"] == "S" and c["grp"] == "multi"]
    pcases = [c for c in recs if c["kind"] == "P"]
    if meta["kind"] != "meta" or not single or not multi or not pcases:
        raise MachineryError("case table export incomplete")
    projs: List[Optional[List[str]]] = [None if p == ["*"] else p for p in sorted(meta["projs"])]
    ctx.cov["case_table"] = {"single_file_cases": len(single), "multi_file_cases": len(multi), "condition_shape_cases": len(pcases),
                             "projections": meta["projs"], "tlc_states_S": meta["nS"], "tlc_states_P": meta["nP"]}
    ctx.cov["model_predicts_row_loss_cases"] = {k: sum(1 for c in single + multi if c["lost"][k]) for k in ("none", "a", "b", "ab")}

    pairs = QUICK_PAIRS if quick else QUICK_PAIRS + EXTRA_PAIRS
    jobs: List[Dict[str, Any]] = []
    jobs += _plan_engine(ctx, quick, single, projs, scratch, pairs)
    jobs += _plan_layouts(ctx, quick, multi, projs, scratch, pairs if quick else pairs[:7])
    jobs += _plan_malformed(ctx, quick, pcases, scratch)
    jobs.append({"kind": "extension", "scratch": scratch})
    # biggest first
    jobs.sort(key=lambda j: -(len(j.get("files", [])) * len(j.get("filters", [])) + 50 * len(j.get("layouts", []))))

    nproc = int(os.environ.get("VERIF_C12_PROCS", "4" if quick else "8"))
    mp = multiprocessing.get_context("spawn")
    results: List[Any] = [None] * len(jobs)
    pending = list(range(len(jobs)))
    n_parser = parser_drift = -1
    for attempt in range(3):
        # a worker that is killed from outside (other checks run on this machine) breaks the whole pool:
        # the unfinished jobs are run again in a fresh pool
        try:
            with concurrent.futures.ProcessPoolExecutor(max_workers=nproc, mp_context=mp) as pool:
                futs = {pool.submit(_run_job, jobs[i]): i for i in pending}
                if n_parser < 0:
                    n_parser, parser_drift = _parser_differential(ctx, pcases)     # meanwhile, in this process
                for f in concurrent.futures.as_completed(futs):
                    try:
                        results[futs[f]] = f.result()
                    except concurrent.futures.process.BrokenProcessPool:
                        pass
        except concurrent.futures.process.BrokenProcessPool:
            pass
        pending = [i for i in range(len(jobs)) if results[i] is None]
        if not pending:
            break
        ctx.cov["worker_pool_restarts"] = attempt + 1
    if pending:
        raise MachineryError(f"{len(pending)} worker job(s) could not be completed (worker processes were terminated three times)")
    t_bind = time.time() - t0 - t_tlc
    _check_companions(ctx, companions.result())
    bg.shutdown()
    ctx.cov["phase_wall_s"] = {"tlc_model_export": round(t_tlc, 1), "binding": round(t_bind, 1), "total": round(time.time() - t0, 1),
                               "worker_cpu_s_by_kind": {}}
    for job, res in zip(jobs, results):
        k = ctx.cov["phase_wall_s"]["worker_cpu_s_by_kind"]
        k[job["kind"]] = round(k.get(job["kind"], 0) + res.get("wall_s", 0), 1)
    ctx.count_traces(n_parser)
    ctx.cov["parser_conditions_checked"] = n_parser
    ctx.cov["model_drift_notes"] = ctx.cov.get("model_drift_notes", 0) + parser_drift

    n_pairs = 0
    for job, res in zip(jobs, results):
        _collect(ctx, res)
        if job["kind"] == "engine":
            for fi, ei in res["pairs"]:
                f, e = job["files"][fi], job["filters"][ei]
                ctx.count_case(("engine", job["types"], f, e), nontrivial=_file_special(f) or _expr_special(e))
                n_pairs += 1
        elif job["kind"] == "layouts":
            for li, ci in res["pairs"]:
                ctx.count_case(("layout", job["types"], job["layouts"][li][0], job["layouts"][li][1][ci][0]), nontrivial=True)
        elif job["kind"] == "malformed":
            for nfiles, cls in res["pairs"]:
                ctx.count_case(("malformed", job["types"], job["layouts"][0][0], cls), nontrivial=True)
    ctx.cov["engine_file_filter_cases"] = n_pairs
    ctx.cov["type_pairs"] = [f"{a}/{b}" for a, b in pairs]
    ctx.cov["exhaustive"] = not quick
    ctx.rule("cases = TLC states of MC_FilterSel: (table layout of 0..3 files over columns a,b incl. NULL/NaN/empty file/empty table) x "
             "(filter: comparisons, between, in/not_in with empty and NULL-containing sets, null operators, NULL literals, conjunctions) x "
             "(projection), plus (filter-condition shape x layout); each concretised per column-type pair and run through the 14 read programs; "
             "non-trivial = the file or the filter involves NULL/NaN/empty file/set operator/between/!=/conjunction, every layout and every shape case; "
             "distinct by (mode, types, file(s), filter)")
    ctx.assume("pyarrow's expression engine, parquet reader and row-group statistics are the execution platform; their NULL/NaN behaviour is "
               "transcribed in FilterSel.tla (Cmp3, IsIn3, StatsRefutes) and re-checked end to end by the binding",
               "abstract order-preserving concretisation: boundary values per column type (harness/values.py); boolean has two points",
               "NaN rows: the reference is IEEE (NaN satisfies only != and not_in and is_not_null); a deviation confined to NaN rows on which ALL read "
               "programs agree is recorded as nan_semantics_drift, any disagreement between read programs is a violation",
               "filter value containers are lists/tuples; one-shot iterators, str as value set, NaN and cross-kind literals are extension observations only",
               "quick: per type pair a table of ~9 files (the 12-row file, the empty file, statistics-sensitive and sampled files) x 26 filters; "
               "thorough: every exported (file<=2 rows.. as exported, filter) case per type pair")


def replay(ctx: Ctx, path: str) -> None:
    """Re-execute a recorded violation payload against the current tree."""
    with open(path) as f:
        rec = json.load(f)
    p = rec["replay"]
    if not isinstance(p, dict) or p.get("mode") not in ("engine", "layout", "malformed"):
        print(json.dumps(rec, indent=1)[:4000])
        return
    scratch = scratch_dir("c12r")
    t = _Table(scratch, p["types"], p["files"])
    try:
        if p["mode"] == "malformed":
            fd = eval(p["filter"], {"nan": float("nan"), "inf": float("inf"), "datetime": __import__("datetime")})  # noqa: S307 - our own repr
            kind, res = _call(t.tbl, p["api"], p["kwargs"], fd, None, p["verify_checksums"])
            print("filter", fd, "->", kind, res)
            ctx.count_traces(1)
            if rec["signature"].startswith("malformed-") and kind != "raise":
                ctx.violation(rec["signature"], rec["what"], p)
            return
        fd = _filter_dict(p["exprs"], p["types"])
        for api, kw in VARIANTS:
            for verify in (True, False):
                kind, res = _call(t.tbl, api, kw, fd, p.get("columns"), verify)
                got = sorted(row_key(r) for r in res) if kind == "rows" else res
                mark = ""
                if api == p["api"] and kw == p["kwargs"] and verify == p["verify_checksums"]:
                    ctx.count_traces(1)
                    still = kind != "rows" or got[:40] != p.get("expected")
                    mark = "   <- recorded program: " + ("still deviates from the reference rows" if still else "now returns the reference rows")
                    if still:
                        ctx.violation(rec["signature"], rec["what"], p)
                print(api, kw, "verify" if verify else "noverify", kind, got, mark)
        print("reference rows:", p.get("expected"))
    finally:
        t.close()
