"""C02 - Readers observe only whole committed snapshots.

Specification: spec/DataShard.tla with reader actors (RBegin -> RReadList -> RReadManifest* ->
RReadData* -> RReturn); invariants ReadIsSnapshot (the returned file set is the file set of one
snapshot that was current between the read's start and end), ReadsMonotone (per handle, reads never
move backwards in commit order), ReachablePresent, Serializable.

TLC: every interleaving of one reader (two reads: data scan + row count) with a writer performing a
two-file transaction / a delete (manifest rewrite) / a multi-operation transaction (append + delete
+ expire in one commit) / two operations on a shared handle; thorough adds two writers.
Binding: the same scenarios on the real library under the baton scheduler with every read API
(scan, scan(parallel), scan_batches, iter_records, row_count, filtered+projected scan, checksum
verification on/off); each trace validated by TLC against the same actions: the rows an API
returned must be exactly the files the model says that read observed, and ReadIsSnapshot /
ReadsMonotone are evaluated on the reconstructed state after every event.
"""
from __future__ import annotations

from typing import Any, Dict, List, Tuple

from .. import l1, tlc
from ..common import Ctx, MachineryError
from ..l1 import ActorSpec as A, Scenario
from ..tlc import Raw
from . import c01

LEVEL = "model_checking"
INV = ["TypeOK", "Serializable", "ReachablePresent", "ReadIsSnapshot", "ReadsMonotone", "ReadsNeverFail", "NoLiveDelete"]


def mc_configs(quick: bool) -> List[Tuple[str, Dict[str, Any], bool]]:
    rs = dict(Actors=Raw("<- ARS"), Role=Raw("<- Role_RS"), Idx=Raw("<- Idx_RS"), Handle=Raw("<- Sep_RS"))
    c = [
        ("reader || two-file transaction", c01.mc_base(Prog=Raw("<- Prog_RA"), **rs), True),
        ("reader || delete (manifest rewrite)", c01.mc_base(Prog=Raw("<- Prog_RB"), **rs), True),
        ("reader || multi-operation transaction", c01.mc_base(Prog=Raw("<- Prog_RC"), **rs), True),
        ("reader and writer share one handle", c01.mc_base(Prog=Raw("<- Prog_RS"), **dict(rs, Handle=Raw("<- Shared_RS"))), True),
    ]
    if not quick:
        c.append(("reader || two writers", c01.mc_base(Actors=Raw("<- AR"), Role=Raw("<- Role_R"), Idx=Raw("<- Idx_R"), Handle=Raw("<- Sep_R"), Prog=Raw("<- Prog_R3")), True))
    return c


def scenarios(quick: bool) -> List[Scenario]:
    reads_all = [{"t": "read", "api": "scan"}, {"t": "read", "api": "count"}, {"t": "read", "api": "batches", "verify": False},
                 {"t": "read", "api": "records"}, {"t": "read", "api": "parallel"}, {"t": "read", "api": "filter", "verify": False}]
    s = [
        Scenario("rd-vs-2file-tx", [A("c1", "committer", [{"t": "append", "n": 2}]), A("r1", "reader", [{"t": "read", "api": "scan"}, {"t": "read", "api": "count"}])]),
        Scenario("rd-vs-delete", [A("c1", "committer", [{"t": "delete", "refs": [("init", 1)]}]), A("r1", "reader", [{"t": "read", "api": "batches", "verify": False}, {"t": "read", "api": "records"}])]),
        Scenario("rd-vs-multi", [A("c1", "committer", [{"t": "multi", "n": 1, "refs": [("init", 1)], "cutoff": 8}]), A("r1", "reader", [{"t": "read", "api": "parallel"}, {"t": "read", "api": "filter"}])]),
        Scenario("rd-shared-handle", [A("c1", "committer", [{"t": "append"}, {"t": "delete", "refs": [("init", 1)]}], handle="h"),
                                      A("r1", "reader", [{"t": "read", "api": "scan", "verify": False}, {"t": "read", "api": "scan"}], handle="h")]),
    ]
    # an EMPTY table: the reader races the table's first commit (no current snapshot -> first snapshot)
    s.append(Scenario("rd-vs-first-commit", [A("c1", "committer", [{"t": "append"}]),
                                             A("r1", "reader", [{"t": "read", "api": "scan"}, {"t": "read", "api": "count"}, {"t": "read", "api": "batches"}])], init_snaps=0))
    if not quick:
        s += [
            Scenario("rd-all-apis", [A("c1", "committer", [{"t": "append", "n": 2}, {"t": "delete", "refs": [("init", 1)]}]), A("r1", "reader", reads_all)]),
            Scenario("2rd-vs-2wr", [A("c1", "committer", [{"t": "append"}]), A("c2", "committer", [{"t": "delete", "refs": [("init", 2)]}]),
                                    A("r1", "reader", [{"t": "read", "api": "scan"}, {"t": "read", "api": "count"}]),
                                    A("r2", "reader", [{"t": "read", "api": "batches"}, {"t": "read", "api": "records", "verify": False}])]),
            Scenario("rd-vs-cme-retry", [A("c1", "committer", [{"t": "append"}]), A("c2", "committer", [{"t": "append", "n": 2}]),
                                         A("r1", "reader", [{"t": "read", "api": "scan"}, {"t": "read", "api": "scan"}])]),
        ]
    return s


def run(ctx: Ctx) -> None:
    quick = ctx.tier == "quick"
    try:
        # model checking, with action coverage as the anti-vacuity evidence (reader steps must be taken)
        for label, consts, _ in mc_configs(quick):
            cfg = tlc.make_cfg(spec="Spec", constants=consts, invariants=INV, check_deadlock=False)
            res = tlc.run_tlc("MC_DataShard", cfg, timeout_s=1500, label=label, coverage=True, workers=8)
            ctx.add_tlc(res)
            if not res.ok and res.timed_out and not res.violated:
                ctx.cov.setdefault("model_runs_stopped_by_time_limit", []).append({"scenario": label, "distinct_states_explored": res.distinct, "wall_s": round(res.wall_s, 1)})
            elif not res.ok:
                ctx.violation(f"model:{label}", f"TLC: {res.violated or 'timeout'} in the protocol model, scenario '{label}'", res.error_trace[:6000])
            for act in ("ReaderNext", "RReadList", "RReadManifest", "RReturn", "FlipHint"):
                if res.coverage.get(act, 0) == 0:
                    raise MachineryError(f"vacuous model run '{label}': action {act} never taken (coverage {res.coverage})")
        # one transient storage error anywhere (reader: RFault, writer: Fault): a failed read is not an answer, every
        # successful one is still a snapshot; a failed commit is never visible
        rs = dict(Actors=Raw("<- ARS"), Role=Raw("<- Role_RS"), Idx=Raw("<- Idx_RS"), Handle=Raw("<- Sep_RS"))
        c01.run_mc(ctx, [("reader || two-file transaction, one transient fault", c01.mc_base(Prog=Raw("<- Prog_RA"), FaultKinds={"before"}, FaultBudget=1,
                                                                                             FixInterrupt=True, FixOrphanMeta=True, **rs), True)],
                   [i for i in INV if i != "ReadsNeverFail"] + ["AckedOnce"])

        def reader_faults(scn: Scenario, steps: Dict[str, int]) -> List[Tuple[str, Any]]:
            """A transient storage error at every step of a read, with the writer paused at every point of its commit
            (in particular between its metadata write and the pointer flip): the read must raise, never answer from
            somewhere else."""
            if scn.name != "rd-vs-2file-tx":
                return []
            jobs: List[Tuple[str, Any]] = []
            for wk in range(0, steps["c1"] + 1, 3 if quick else 1):
                for rk in range(0, steps["r1"] + 1, 2 if quick else 1):
                    jobs.append(("list", [["c1", wk], ["r1", rk], ["fault", "r1", "before", "oserror"], ["r1", 400], ["c1", 400]]))
            return jobs

        c01.conformance(ctx, scenarios(quick), n_random=15 if quick else 300, n_double=15 if quick else 300, stride=2 if quick else 1, extra_jobs=reader_faults)
    finally:
        l1.close_pool()
    ctx.rule("model: all interleavings of reader steps with writer steps for the listed scenarios; implementation: single-pause, double-pause and random "
             "schedules of each scenario on the real library, every read API; non-trivial = reader and writer steps interleave; distinct by event sequence")
    ctx.assume("pandas APIs (to_pandas/iter_pandas) are not exercised: pandas is not installed in this sandbox",
               "pool worker threads of scan(parallel) are attributed to the running reader and not individually scheduled",
               "a garbage collector is not an actor here (C05/C06 cover reads racing deletions)")
