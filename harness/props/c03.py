"""C03 - A crash at any point leaves the table in the pre- or post-operation state.

Specification: spec/FSDurable.tla (Crash = the process dies, kernel state stays; invariants
AtomicPublish, CrashPreOrPost0), spec/MC_FSDurable.tla (every operation type as its system-call
sequence, Crash enabled after every step; exports the specification's crash classes
(operation, phase, call)), spec/Trace_FS.tla (validates the recorded step log of every crashed child,
followed by `crash` and by `observe` = the independent reader's projection of what survived).

1. TLC proves the invariants on the protocol model (and must fail for: pointer first, write in
   place, data under its final name, collector deleting live data) and exports the crash classes.
2. Real crashes: harness/crash_child.py performs ONE operation in a fresh interpreter with a counter
   on every storage-level entry point and `os._exit(137)`s before the k-th call.  Quick: every k of an
   append, and for every other operation one k per specification crash class; thorough: every k of
   every operation on tables with 0..2 prior snapshots.
3. After each crash
   (a) the independent reader projects the directory: the state is exactly PRE or exactly POST
       (POST = projection of an uncrashed run; POST only if the effective pointer advanced), every
       reachable file is present and parses, nothing under a final name is unparseable;
   (b) a fresh interpreter reopens the table with the library: same uuid, same snapshots, same rows
       for every retained snapshot, a follow-up append works, garbage_collect(0) right away and
       collect(0, inflight_timeout_ms=0) (the abandonment window passed) delete nothing reachable
       and leave no leftover of the dead operation under data/ or metadata/manifests/;
   (c) TLC accepts the step log + crash + observe as a behaviour of FSDurable with the invariants
       holding in every state (the surviving directory is the one the specification predicts).
"""
from __future__ import annotations

import json
import os
import shutil
import subprocess
import time
from concurrent.futures import ThreadPoolExecutor
from typing import Any, Dict, List, Optional, Tuple

from .. import project
from .. import strace_trace as S
from .. import tlc
from ..common import VERIF, Ctx, MachineryError, rng, scratch_dir
from .c16 import judge, mc_cfg

LEVEL = "model_checking"

CHILD = os.path.join(VERIF, "harness", "crash_child.py")
C03_INV = ["AtomicPublish", "CrashPreOrPost0", "AtMostOneFlip"]
C03_VARIANTS = {"hintfirst": ["CrashPreOrPost0"], "inplace": ["AtomicPublish"], "datafinal": ["AtomicPublish"],
                "gclive": ["CrashPreOrPost0"]}
FOLLOWUP = [[99000 + i, "r%d" % (99000 + i)] for i in range(2)]
POOL = 12


def _env() -> Dict[str, str]:
    e = dict(os.environ)
    e["PYTHONPATH"] = os.environ.get("DATASHARD_SRC", "/repo/src")
    e["PYTHONDONTWRITEBYTECODE"] = "1"
    return e


def child(*args: str, timeout: int = 120) -> subprocess.CompletedProcess:
    return subprocess.run(["/venv/bin/python", CHILD] + list(args), env=_env(), stdout=subprocess.PIPE, stderr=subprocess.PIPE,
                          text=True, timeout=timeout)


# ------------------------------------------------------------------------------------------------
# the independent reader's view of a table directory
# ------------------------------------------------------------------------------------------------
def resolve(st: Dict[str, Any], root: str) -> Optional[str]:
    """Effective pointer: the hint if it names an existing version, else the highest version on disk
    (newest among equals) - what 'reopening the table' is defined to start from."""
    n = project.current_meta_name(st)
    if n is not None:
        return n
    best: Optional[Tuple[int, float, str]] = None
    for name in st["metas"]:
        m = project.META_RE.match(name)
        key = (int(m.group(1)), os.path.getmtime(os.path.join(root, "metadata", name)), name)
        if best is None or key[:2] > best[:2]:
            best = key
    return best[2] if best else None


def view(root: str) -> Dict[str, Any]:
    if not os.path.isdir(root):
        return {"table": False, "files": [], "meta": None, "hint_raw": None, "broken": {}, "missing": [], "snaps": [], "cur": None,
                "uuid": None, "reachable": [], "ids": []}
    rd = project.LocalReader(root)
    st = project.read_state(rd)
    name = resolve(st, root)
    v: Dict[str, Any] = {"table": name is not None, "files": st["files"], "meta": name, "broken": st["broken"], "other": st["other"],
                         "hint_raw": st["hint_raw"].decode("utf-8", "replace") if st["hint_raw"] is not None else None,
                         "missing": [], "snaps": [], "cur": None, "uuid": None, "reachable": [], "ids": []}
    if name is None:
        return v
    meta = st["metas"][name]
    v["uuid"] = meta.get("table_uuid")
    v["missing"] = project.missing_reachable(st, meta)
    r = project.reachable(st, meta)
    v["reachable"] = sorted(set(r["lists"] + r["manifests"] + r["data"]))
    for i, s in enumerate(meta.get("snapshots", [])):
        rws, problems = project.snapshot_rows(rd, st, s)
        v["snaps"].append(sorted([x["k"], x["v"]] for x in rws) if rws is not None else {"unreadable": problems})
        v["ids"].append(s["snapshot_id"])
        if s["snapshot_id"] == meta.get("current_snapshot_id"):
            v["cur"] = i
    return v


def same_state(a: Dict[str, Any], b: Dict[str, Any], compare_uuid: bool) -> bool:
    if a["table"] != b["table"]:
        return False
    if not a["table"]:
        return True
    return a["snaps"] == b["snaps"] and a["cur"] == b["cur"] and (not compare_uuid or a["uuid"] == b["uuid"])


# ------------------------------------------------------------------------------------------------
# prepared tables
# ------------------------------------------------------------------------------------------------
def plant_orphans(root: str, donor: str) -> None:
    """Leftovers for the collector to remove: an orphan data file, an orphan manifest, dead temp files,
    a stale marker for the orphan and - the trap - a stale marker naming a LIVE data file."""
    old = time.time() - 2 * 86400
    dd = sorted(f for f in os.listdir(os.path.join(donor, "data")) if f.endswith(".parquet"))
    dm = sorted(f for f in os.listdir(os.path.join(donor, "metadata", "manifests")) if f.startswith("manifest_") and not f.startswith("manifest_list_"))
    planted = []

    def put(src: Optional[str], rel: str, content: Optional[bytes] = None) -> None:
        dst = os.path.join(root, rel)
        os.makedirs(os.path.dirname(dst), exist_ok=True)
        if src is not None:
            shutil.copyfile(src, dst)
        else:
            with open(dst, "wb") as f:
                f.write(content or b"")
        planted.append(dst)

    put(os.path.join(donor, "data", dd[0]), "data/auto_00000000deadbeef.parquet")
    put(os.path.join(donor, "data", dd[0]), "data/tmpdead0001.parquet")
    put(os.path.join(donor, "metadata", "manifests", dm[0]), "metadata/manifests/manifest_1_deadbeef.avro")
    put(os.path.join(donor, "metadata", "manifests", dm[0]), "metadata/manifests/.tmp.deadbeef.manifest_1_deadbeef.avro")
    put(None, "metadata/inflight/auto_00000000deadbeef.parquet.inflight", json.dumps({"file_path": "data/auto_00000000deadbeef.parquet"}).encode())
    live = sorted(f for f in os.listdir(os.path.join(root, "data")) if f.startswith("auto_") and "deadbeef" not in f)
    if live:
        put(None, f"metadata/inflight/{live[0]}.inflight", json.dumps({"file_path": f"data/{live[0]}"}).encode())
    for p in planted:
        os.utime(p, (old, old))


def prepare_tables(base: str) -> Dict[Tuple[str, int], str]:
    out: Dict[Tuple[str, int], str] = {}

    def mk(n: int) -> str:
        d = os.path.join(base, f"P{n}", "t")
        os.makedirs(os.path.dirname(d))
        p = child("prepare", d, str(n))
        if p.returncode != 0:
            raise MachineryError(f"cannot prepare a table with {n} snapshots: {p.stderr[-1500:]}")
        return d

    with ThreadPoolExecutor(max_workers=3) as ex:
        ps = list(ex.map(mk, [0, 1, 2]))
    for n, d in enumerate(ps):
        out[("plain", n)] = d
        g = os.path.join(base, f"G{n}", "t")
        shutil.copytree(d, g)
        plant_orphans(g, ps[1])
        out[("gc", n)] = g
    return out


# ------------------------------------------------------------------------------------------------
# step logs
# ------------------------------------------------------------------------------------------------
def read_log(path: str) -> Tuple[List[Dict[str, Any]], List[Dict[str, Any]], Optional[int], Optional[str]]:
    intents, recs, done, err = [], [], None, None
    if os.path.exists(path):
        with open(path) as f:
            for line in f:
                o = json.loads(line)
                if "intent" in o:
                    intents.append(o["intent"])
                elif "rec" in o:
                    recs.append(o["rec"])
                elif "done" in o:
                    done = o["done"]
                elif "error" in o:
                    err = o["error"]
    return intents, recs, done, err


def final_class(rel: str) -> str:
    """Class of the name a (temp) file is published under."""
    base = rel.rsplit("/", 1)[-1]
    d = S.parent(rel)
    if base.startswith(".tmp."):
        rest = base[len(".tmp."):]
        fin = rest.split(".", 1)[1] if "." in rest else rest      # ".tmp.<random>.<final>"  (intents: ".tmp.?.<final>")
        if rest.startswith("?"):
            fin = rest[2:]
        return S.classify(fin if d == "." else f"{d}/{fin}")
    return "data" if (rel.startswith("data/") and base.startswith("tmp")) else S.classify(rel)


def step_classes(op: str, intents: List[Dict[str, Any]], root: str) -> List[Tuple[str, str]]:
    """(phase, call) of every counted step, in the vocabulary of MC_FSDurable's instruction records."""
    root = os.path.realpath(root)
    out: List[Tuple[str, str]] = []
    ph = "-"
    for it in intents:
        rel = os.path.relpath(it["path"], root)
        cls = final_class(rel)
        o = it["op"]
        if o == "mkdir":
            out.append(("mkdir", "mkdir"))
        elif o == "unlink":
            out.append(("gc", "unlink") if op == "gc" else (("unmark", "unlink") if cls == "marker" else ("rollback", "unlink")))
        elif o == "flock":
            out.append(("lock" if it["how"] == "ex" else "unlock", "flock"))
        elif cls == "lock":
            out.append(("lock", "open") if o == "open" else ("unlock", o))
        else:
            if o == "open" and it.get("creat") and not it.get("dir"):
                if not (cls == "data" and it.get("via") == "pyarrow" and ph == "data"):
                    ph = cls
            out.append((ph, o))
    return out


# ------------------------------------------------------------------------------------------------
# one crash run
# ------------------------------------------------------------------------------------------------
class Case:
    def __init__(self, op: str, prior: int, k: int, n: int, cls: Tuple[str, str]) -> None:
        self.op, self.prior, self.k, self.n, self.cls = op, prior, k, n, cls
        self.root = ""
        self.trace: Optional[Dict[str, Any]] = None
        self.view: Dict[str, Any] = {}
        self.name = f"{op}/prior{prior}/k{k}of{n}"


def run_case(c: Case, src_dir: Optional[str], base: str, init: Dict[str, Any], pre: Dict[str, Any]) -> None:
    d = os.path.join(base, f"c-{c.op}-{c.prior}-{c.k}")
    c.root = os.path.join(d, "t")
    os.makedirs(d)
    if src_dir is not None:
        shutil.copytree(src_dir, c.root)
    log = os.path.join(d, "log")
    p = child("run", c.root, c.op, str(c.k), log)
    intents, recs, done, err = read_log(log)
    if c.k < c.n:
        if p.returncode != 137:
            raise MachineryError(f"{c.name}: child was to die at step {c.k} but exited {p.returncode}: {err or p.stderr[-800:]}")
        if len(intents) != c.k + 1:
            raise MachineryError(f"{c.name}: {len(intents)} steps logged, expected {c.k + 1} (the run is not reproducible step by step)")
    elif p.returncode != 0 or done != c.n:
        raise MachineryError(f"{c.name}: uncrashed run exited {p.returncode} after {done} steps (dry run had {c.n}): {err or p.stderr[-800:]}")
    c.view = view(c.root)
    files = [f for f in c.view["files"]]
    recs = [{"op": "mark", "kind": "begin", "label": c.op, "commit": False}] + recs
    recs += [{"op": "crash"}, {"op": "observe", "files": files, "hintChanged": c.view["hint_raw"] != pre["hint_raw"]}]
    c.trace = S.build_trace(recs, c.root, S.Reach(c.root) if os.path.isdir(c.root) else None, init, loss=False, maxflips=1)


# ------------------------------------------------------------------------------------------------
# verdicts
# ------------------------------------------------------------------------------------------------
def judge_directory(ctx: Ctx, c: Case, pre: Dict[str, Any], post: Dict[str, Any]) -> None:
    v = c.view
    where = f"{c.cls[0]}/{c.cls[1]}"
    payload = {"op": c.op, "prior": c.prior, "k": c.k, "steps": c.n, "crash_before": where, "observed": {k: v[k] for k in ("table", "meta", "hint_raw", "snaps", "cur", "missing", "broken")},
               "pre": {k: pre[k] for k in ("table", "meta", "snaps", "cur")}, "post": {k: post[k] for k in ("table", "snaps", "cur")}}
    advanced = v["meta"] != pre["meta"]
    expect, label = (post, "POST") if advanced else (pre, "PRE")
    if v["missing"] or any(isinstance(s, dict) for s in v["snaps"]):
        ctx.violation(f"reachable-missing:{c.op}:{where}",
                      f"{c.name}: after a crash before {where} the pointer names {v['meta']} but reachable files are missing/unreadable: "
                      f"{v['missing'][:3]} {[s for s in v['snaps'] if isinstance(s, dict)][:2]}", payload)
    elif not same_state(v, expect, compare_uuid=c.op != "create"):
        ctx.violation(f"not-pre-or-post:{c.op}:{where}",
                      f"{c.name}: after a crash before {where} the table (pointer {'advanced' if advanced else 'not advanced'}) is not the {label} state: "
                      f"snapshots {[len(s) for s in v['snaps']]} current {v['cur']}; PRE {[len(s) for s in pre['snaps']]}/{pre['cur']} POST {[len(s) for s in post['snaps']]}/{post['cur']}",
                      payload)
    if v["broken"]:
        ctx.violation(f"torn-final-name:{c.op}:{'+'.join(sorted({S.classify(p) for p in v['broken']}))}",
                      f"{c.name}: after a crash before {where} a file under a final name does not parse: {list(v['broken'].items())[:2]}", payload)
    stray = [f for f in v["files"] if f not in pre["files"] and S.classify(f) == "other"]
    if stray:
        ctx.violation(f"unknown-leftover:{c.op}:{where}", f"{c.name}: leftover of an unexpected kind after the crash: {stray[:3]}", payload)
    if advanced and v["hint_raw"] == pre["hint_raw"]:
        ctx.cov["post_visible_before_hint"] = ctx.cov.get("post_visible_before_hint", 0) + 1


def judge_reopen(ctx: Ctx, c: Case, rep: Dict[str, Any]) -> None:
    v = c.view
    where = f"{c.cls[0]}/{c.cls[1]}"
    payload = {"op": c.op, "prior": c.prior, "k": c.k, "crash_before": where, "report": {k: rep.get(k) for k in rep if not k.startswith("reader")},
               "observed": {k: v[k] for k in ("table", "meta", "snaps", "cur", "ids", "uuid")}}

    def bad(kind: str, what: str) -> None:
        ctx.violation(f"{kind}:{c.op}:{where}", f"{c.name} (crash before {where}): {what}", payload)

    if rep.get("steps"):
        bad("reopen-raises", f"the library fails on the reopened table: {rep['steps'][:3]}")
        return
    if not v["table"]:
        if rep.get("loaded") is not False:
            bad("reopen-state", f"no table on disk by the independent reader, but load_table returned loaded={rep.get('loaded')}")
        elif sorted(rep.get("scan_after_append") or []) != sorted(FOLLOWUP):
            bad("followup-append", f"create + append after the crash does not show the appended rows: {rep.get('scan_after_append')}")
        return
    if rep.get("loaded") is not True:
        bad("reopen-state", f"a table is on disk ({v['meta']}) but load_table says: {rep.get('load_error')}")
        return
    cur_rows = v["snaps"][v["cur"]] if v["cur"] is not None else []
    cur_id = v["ids"][v["cur"]] if v["cur"] is not None else None
    if rep["uuid"] != v["uuid"]:
        bad("reopen-state", f"table uuid {rep['uuid']} differs from the one on disk {v['uuid']}")
    if rep["snapshots"] != v["ids"] or rep["current"] != cur_id:
        bad("reopen-state", f"library sees snapshots {rep['snapshots']} current {rep['current']}, the directory holds {v['ids']} current {cur_id}")
    if rep["scan"] != cur_rows:
        bad("reopen-rows", f"scan() returns {len(rep['scan'])} rows, the current snapshot holds {len(cur_rows)}")
    if rep["snapshot_rows"] != v["snaps"]:
        bad("reopen-rows", "a retained snapshot does not read back its rows through the library")
    want = sorted(cur_rows + FOLLOWUP)
    if rep["append_ok"] is not True or rep["scan_after_append"] != want:
        bad("followup-append", f"follow-up append: ok={rep['append_ok']} rows {len(rep['scan_after_append'] or [])} expected {len(want)}")
    r1, r2, r3 = rep["reader1"], rep["reader2"], rep["reader3"]
    retained = [s["rows"] for s in r1["snapshots"]]
    before = [f for f in r1["files"] if (f.startswith("data/") or f.startswith("metadata/manifests/")) and f not in r1["reachable"]]
    if before:      # non-vacuity of the collection checks: the dead operation did leave something to collect
        ctx.cov["cases_with_leftovers_to_collect"] = ctx.cov.get("cases_with_leftovers_to_collect", 0) + 1
        if [f for f in before if f not in r2["files"]]:
            ctx.cov["cases_first_collection_removed_something"] = ctx.cov.get("cases_first_collection_removed_something", 0) + 1
    for tag, r in (("garbage_collect(0) right after the crash", r2), ("collect(0, 0) after the abandonment window", r3)):
        if r["missing"] or [s["rows"] for s in r["snapshots"]] != retained or r["meta"] != r1["meta"]:
            bad("gc-deletes-live", f"{tag} damaged a retained snapshot: missing {r['missing'][:3]}")
            return
    left = [f for f in r3["files"] if (f.startswith("data/") or f.startswith("metadata/manifests/")) and f not in r3["reachable"]]
    if left:
        bad("gc-leaves-leftovers", f"after the abandonment window the collector leaves unreachable files: {left[:4]}")
    if rep["scan_final"] != want:
        bad("reopen-rows", f"after both collections scan() returns {len(rep['scan_final'] or [])} rows, expected {len(want)}")


# ------------------------------------------------------------------------------------------------
def model_part(ctx: Ctx, max_prior: int) -> List[Dict[str, Any]]:
    out = os.path.join(scratch_dir("c03cls"), "classes.ndjson")

    def one(variant: str) -> Any:
        cfg = mc_cfg(variant, C03_INV + (["Finishes"] if variant == "ok" else []), max_prior, export=(variant == "ok"))
        return tlc.run_tlc("MC_FSDurable", cfg, env={"VERIF_OUT": out}, timeout_s=600, workers=2,
                           label=f"MC_FSDurable Variant={variant} MaxPrior={max_prior} (C03 invariants)")

    names = ["ok"] + list(C03_VARIANTS)
    with ThreadPoolExecutor(max_workers=5) as ex:
        res = dict(zip(names, ex.map(one, names)))
    ctx.add_tlc(res["ok"])
    if not res["ok"].ok:
        ctx.violation("model:" + "+".join(res["ok"].violated or ["error"]),
                      f"TLC: {res['ok'].violated} violated by the operation sequences as transcribed from the code", res["ok"].error_trace[:6000])
        return []
    for v, exp in C03_VARIANTS.items():
        if not (set(res[v].violated) & set(exp)):
            raise MachineryError(f"anti-vacuity: deviation {v!r} must violate {exp}, TLC reported {res[v].violated}")
    ctx.cov["anti_vacuity_model"] = {v: res[v].violated for v in C03_VARIANTS}
    with open(out) as f:
        return [json.loads(line) for line in f if line.strip()]


def run(ctx: Ctx) -> None:
    quick = ctx.tier == "quick"
    # the protocol model is checked while the real crashes run (its crash classes are needed at the end)
    bg = ThreadPoolExecutor(max_workers=1)
    model_future = bg.submit(model_part, ctx, 2 if quick else 3)

    base = scratch_dir("c03")
    tables = prepare_tables(base)
    combos = [("create", 0), ("append", 1), ("append", 0), ("append", 2), ("multi", 1), ("delete", 2), ("replace", 2), ("expire", 2), ("deletesnap", 2), ("gc", 2)]
    if not quick:
        combos += [("multi", 0), ("multi", 2), ("delete", 1), ("replace", 1), ("expire", 1), ("deletesnap", 1), ("gc", 0), ("gc", 1)]

    # dry runs: step count, the (phase, call) of every step, and the POST state
    plans: List[Tuple[str, int, Optional[str], Dict[str, Any], Dict[str, Any], Dict[str, Any], List[Tuple[str, str]]]] = []

    def dry(combo: Tuple[str, int]) -> Any:
        op, prior = combo
        src = None if op == "create" else tables[("gc" if op == "gc" else "plain", prior)]
        d = os.path.join(base, f"dry-{op}-{prior}")
        root = os.path.join(d, "t")
        os.makedirs(d)
        if src is not None:
            shutil.copytree(src, root)
        log = os.path.join(d, "log")
        p = child("run", root, op, "-1", log)
        intents, _recs, done, err = read_log(log)
        if p.returncode != 0 or done is None or done != len(intents):
            raise MachineryError(f"dry run {op}/prior{prior} failed: rc={p.returncode} {err} {p.stderr[-800:]}")
        pre = view(src) if src is not None else view(os.path.join(base, "nonexistent"))
        post = view(root)
        init = S.project_init(src) if src is not None else {"entries": [], "reach": []}
        classes = step_classes(op, intents, root) + [("return", "ack")]
        shutil.rmtree(d, ignore_errors=True)
        return (op, prior, src, init, pre, post, classes)

    with ThreadPoolExecutor(max_workers=POOL) as ex:
        plans = list(ex.map(dry, combos))

    cases: List[Tuple[Case, Any]] = []
    for (op, prior, src, init, pre, post, classes) in plans:
        n = len(classes) - 1
        if quick and not (op == "append" and prior == 1):
            r = rng(ctx.seed, "c03", op, prior)
            pick: Dict[Tuple[str, str], List[int]] = {}
            for k, cl in enumerate(classes):
                pick.setdefault(cl, []).append(k)
            ks = sorted({r.choice(v) for v in pick.values()})
            if op == "append":          # other priors of append: the classes prior 1 does not have + a thin sample of the rest
                have = set(next(cl for (o2, p2, _s, _i, _p, _q, cl) in plans if o2 == "append" and p2 == 1))
                must = [k for k in ks if classes[k] not in have]
                ks = sorted(set(must) | set(r.sample(ks, min(10, len(ks)))))
        else:
            ks = list(range(n + 1))
        for k in ks:
            cases.append((Case(op, prior, k, n, classes[k]), (src, init, pre, post)))
    ctx.cov["crash_points"] = len(cases)
    ctx.cov["steps_per_operation"] = {f"{op}/prior{prior}": len(cl) - 1 for (op, prior, _s, _i, _p, _q, cl) in plans}

    # crash runs
    with ThreadPoolExecutor(max_workers=POOL) as ex:
        list(ex.map(lambda cp: run_case(cp[0], cp[1][0], base, cp[1][1], cp[1][2]), cases))

    # (a) the directory, by the independent reader
    for c, (_src, _init, pre, post) in cases:
        judge_directory(ctx, c, pre, post)
        ctx.count_case((c.op, c.prior, c.k), nontrivial=True)

    # (b) reopen with the library, batched over a few fresh interpreters
    chunks = [cases[i::8] for i in range(8)]
    chunks = [ch for ch in chunks if ch]

    def reopen(chunk: List[Tuple[Case, Any]]) -> List[Dict[str, Any]]:
        if not chunk:
            return []
        jf = os.path.join(base, f"jobs-{id(chunk)}.json")
        of = jf + ".out"
        with open(jf, "w") as f:
            json.dump([c.root for c, _ in chunk], f)
        p = child("reopen", jf, of, timeout=600)
        if p.returncode != 0:
            raise MachineryError(f"reopen worker failed: {p.stderr[-1500:]}")
        with open(of) as f:
            return json.load(f)

    pool = ThreadPoolExecutor(max_workers=8)
    reopen_futures = [pool.submit(reopen, ch) for ch in chunks]

    # (c) the step logs are behaviours of the specification, the survivors are what it predicts
    # (TLC runs while the reopen workers are busy)
    traces = [c.trace for c, _ in cases]
    names = [c.name for c, _ in cases]
    n_ok = judge(ctx, traces, names, C03_INV, f"Trace_FS {len(traces)} crash step logs", prop_prefix="model:", ancestors=False)
    ctx.count_traces(n_ok)

    for chunk, fut in zip(chunks, reopen_futures):
        for (c, _x), rep in zip(chunk, fut.result()):
            judge_reopen(ctx, c, rep)
    pool.shutdown()

    spec_classes = model_future.result()
    bg.shutdown()
    # per operation: the specification's classes over the prior-snapshot counts that were executed
    executed = {(c.op, c.prior) for c, _ in cases}
    by_op: Dict[str, set] = {}
    for sc in spec_classes:
        if (sc["op"], sc["prior"]) in executed:
            by_op.setdefault(sc["op"], set()).add((sc["ph"], sc["call"]))

    # coverage of the specification's crash classes by real crashes
    hit: Dict[str, set] = {}
    for c, _ in cases:
        hit.setdefault(c.op, set()).add(c.cls)
    missing = {op: sorted(by_op[op] - hit.get(op, set())) for op in by_op if op in hit and by_op[op] - hit.get(op, set())}
    extra = {op: sorted(hit[op] - by_op.get(op, set())) for op in hit if hit[op] - by_op.get(op, set())}
    ctx.cov["spec_crash_classes"] = sum(len(v) for v in by_op.values())
    ctx.cov["spec_crash_classes_hit"] = sum(len(by_op[op] & hit.get(op, set())) for op in by_op)
    ctx.cov["real_steps_without_spec_class"] = {op: [f"{a}/{b}" for a, b in v] for op, v in extra.items()}
    if missing:
        ctx.cov["spec_crash_classes_not_hit"] = {op: [f"{a}/{b}" for a, b in v] for op, v in missing.items()}
        if not ctx.violations:      # a verdict is never masked by a coverage complaint
            raise MachineryError(f"model drift: crash classes enumerated by MC_FSDurable that no real crash run hit: {missing}")
    ctx.cov["exhaustive"] = not quick
    some = [c for c, _ in cases if c.cls == ("hint", "rename")][:1] + [c for c, _ in cases if c.cls[0] == "data"][:1]
    for c in some:
        ctx.sample({"case": c.name, "crash_before": f"{c.cls[0]}/{c.cls[1]}", "pointer_after": c.view["meta"],
                    "snapshots_after": [len(s) for s in c.view["snaps"]], "leftovers": [f for f in c.view["files"] if S.classify(f) == "temp"][:3]})
    ctx.rule("case = (operation, prior snapshots, k): a fresh interpreter killed before its k-th storage-level call; every case is checked by the "
             "independent reader, by reopening with the library (append, two collections) and by TLC accepting its step log + crash + observation")
    ctx.assume(
        "process crash only (os._exit before the call): the kernel keeps everything written so far; power loss is C16",
        "a crash between two wrapped calls is equivalent to one before the later call; calls are wrapped at the os / tempfile / fcntl / "
        "pyarrow.parquet.ParquetWriter boundary, pyarrow's internal buffered writes are not separate crash points",
        "POST is the projection of an uncrashed run of the same operation on the same prepared table; 'pointer advanced' is the effective "
        "pointer (hint if it names an existing version, else highest version on disk), so a created table counts as POST once its first "
        "metadata file is published even before the hint exists (counted in coverage.post_visible_before_hint)",
        "the abandonment window is passed by calling GarbageCollector.collect(0, inflight_timeout_ms=0)",
    )
    shutil.rmtree(base, ignore_errors=True)


def replay(ctx: Ctx, path: str) -> None:
    with open(path) as f:
        payload = json.load(f)["replay"]
    if "trace" in payload:
        judge(ctx, [payload["trace"]], [payload.get("trace_name", "replay")], C03_INV, "Trace_FS replay", prop_prefix="model:")
        return
    base = scratch_dir("c03r")
    tables = prepare_tables(base)
    op, prior, k = payload["op"], payload["prior"], payload["k"]
    src = None if op == "create" else tables[("gc" if op == "gc" else "plain", prior)]
    pre = view(src) if src else view(os.path.join(base, "none"))
    c = Case(op, prior, k, payload.get("steps", 10 ** 6), tuple(payload.get("crash_before", "-/-").split("/")))  # type: ignore[arg-type]
    d = os.path.join(base, "dry")
    os.makedirs(d)
    root = os.path.join(d, "t")
    if src:
        shutil.copytree(src, root)
    child("run", root, op, "-1", os.path.join(d, "log"))
    post = view(root)
    c.n = read_log(os.path.join(d, "log"))[2] or c.n
    run_case(c, src, base, S.project_init(src) if src else {"entries": [], "reach": []}, pre)
    judge_directory(ctx, c, pre, post)
    judge(ctx, [c.trace], [c.name], C03_INV, "Trace_FS replay", prop_prefix="model:", ancestors=False)
    jf = os.path.join(base, "jobs.json")
    with open(jf, "w") as f:
        json.dump([c.root], f)
    p = child("reopen", jf, jf + ".out")
    if p.returncode != 0:
        raise MachineryError(p.stderr[-1500:])
    with open(jf + ".out") as f:
        judge_reopen(ctx, c, json.load(f)[0])
