"""C13 - File pruning never changes a query's answer.

Specification: spec/Filter.tla (reference semantics Sat3/RowSat, Bounds, MayMatch = transcription of
filters._file_may_match) and spec/MC_Prune.tla (one TLC state per case, invariant PruneSound).

1. TLC proves PruneSound on the complete small domain (and, as an anti-vacuity companion, must
   FIND the NaN/!= counterexample when the float guard is switched off in the model).
2. TLC exports the complete decision table (case, reference oracle hasMatch/rows, model verdict).
3. Binding, direction spec -> code: every exported case is concretised for every column type and
   executed against the real bound computation (_compute_column_bounds), the real manifest bound
   encoding round trip (_encode_bound/_decode_bound) and the real prune_files_by_bounds.  Verdict
   by the PROPERTY oracle: the code may skip a file only if the reference semantics finds no
   matching row.  Disagreement with the model's MayMatch that is still sound is reported as model
   drift (a note), never as a violation.
4. End-to-end: tables are written through the real append path (parquet + manifests), scanned
   with every exported filter with pruning ON and with pruning replaced by the identity, and both
   are compared with each other and with the reference row set.
"""
from __future__ import annotations

import json
import os
import shutil
from typing import Any, Dict, List, Tuple

from .. import tlc
from ..common import Ctx, MachineryError, rng, scratch_dir
from ..values import ALL_TYPES, FLOAT_DECIMALS, FLOAT_TYPES, NAN, NULL, SCHEMA_TYPE, conc, concretisable, same

LEVEL = "model_checking"


def _abstract_values(case: Dict[str, Any]) -> Dict[str, List[int]]:
    out: Dict[str, List[int]] = {}
    for row in case["file"]:
        for c, v in row.items():
            out.setdefault(c, []).append(v)
    for e in case["exprs"]:
        out.setdefault(e["col"], []).extend(e["lit"])
    return out


def _filter_dict(case: Dict[str, Any], types: Dict[str, str]) -> Dict[str, Any]:
    """Build the user-level filter dict for the case (between when two bounds hit one column)."""
    by_col: Dict[str, List[Dict[str, Any]]] = {}
    for e in case["exprs"]:
        by_col.setdefault(e["col"], []).append(e)
    fd: Dict[str, Any] = {}
    for col, es in by_col.items():
        t = types[col]
        if len(es) == 2 and es[0]["op"] == ">=" and es[1]["op"] == "<=":
            fd[col] = ("between", (conc(t, es[0]["lit"][0]), conc(t, es[1]["lit"][0])))
            continue
        if len(es) != 1:
            raise MachineryError(f"unexpected expression shape {es}")
        e = es[0]
        if e["op"] in ("in", "not_in"):
            fd[col] = (e["op"], [conc(t, v) for v in e["lit"]])
        elif e["op"] in ("is_null", "is_not_null"):
            fd[col] = (e["op"], True)
        else:
            fd[col] = (e["op"], conc(t, e["lit"][0]))
    return fd


def _schema(types: Dict[str, str]) -> Any:
    from datashard import Schema

    ids = {"a": 1, "b": 2}
    fields = [{"id": ids[c], "name": c, "type": SCHEMA_TYPE.get(types[c], types[c]), "required": False} for c in sorted(types)]
    fields.append({"id": 9, "name": "rid", "type": "long", "required": True})
    return Schema(schema_id=1, fields=fields)


def _sig(case: Dict[str, Any], t: str) -> str:
    ops = "+".join(e["op"] for e in case["exprs"])
    has_nan = any(v == NAN for row in case["file"] for v in row.values())
    return f"prune-unsound:{ops}:{'NaN' if has_nan else 'noNaN'}:{'float' if t in FLOAT_TYPES else 'nonfloat'}"


def _direct(ctx: Ctx, cases: List[Dict[str, Any]], type_list: List[str]) -> Tuple[int, int]:
    """Differential on the real bound computation + round trip + prune decision."""
    import pyarrow as pa

    from datashard.data_structures import DataFile, FileFormat
    from datashard.file_manager import FileManager
    from datashard.filters import parse_filter_dict, prune_files_by_bounds
    from datashard.data_operations import DataFileManager

    dfm = DataFileManager.__new__(DataFileManager)  # only the pure helpers are used
    dfm._arrow_schema_cache = {}
    drift = 0
    n = 0
    for case in cases:
        av = _abstract_values(case)
        for t in type_list:
            if case["kind"] == 1:
                if (t in FLOAT_TYPES) != case["isFloat"]:
                    continue
                types = {"a": t}
            else:
                # two columns: a = integer-like column (field id 1), b = float column (field id 2)
                pair = {"long": ("long", "double"), "int": ("int", "float"), "string": ("string", "double"), "date": ("date", "float")}.get(t)
                if pair is None:
                    continue
                types = {"a": pair[0], "b": pair[1]}
            if not all(concretisable(types[c], vs) for c, vs in av.items()):
                continue
            schema = _schema(types)
            dfm._arrow_schema_cache = {}
            arrow_schema = dfm.create_arrow_schema(schema)
            rows = [dict({c: conc(types[c], v) for c, v in row.items()}, rid=i) for i, row in enumerate(case["file"])]
            table = pa.Table.from_pylist(rows, schema=arrow_schema)
            lo, hi = dfm._compute_column_bounds(table, schema)
            # manifest round trip of the bounds, type-faithful
            lo2 = {k: FileManager._decode_bound(FileManager._encode_bound(v)) for k, v in (lo or {}).items()} or None
            hi2 = {k: FileManager._decode_bound(FileManager._encode_bound(v)) for k, v in (hi or {}).items()} or None
            for name, before, after in (("lower", lo, lo2), ("upper", hi, hi2)):
                for k, v in (before or {}).items():
                    if not same(v, after[k]):
                        ctx.violation(f"bounds-roundtrip:{types.get('a')}:{type(v).__name__}",
                                      f"{name} bound {v!r} of a {t} column decodes as {after[k]!r}",
                                      {"case": case, "type": t, "bound": repr(v), "decoded": repr(after[k])})
            df = DataFile(file_path="/data/x.parquet", file_format=FileFormat.PARQUET, partition_values={},
                          record_count=len(rows), file_size_in_bytes=1, lower_bounds=lo2, upper_bounds=hi2)
            fd = _filter_dict(case, types)
            kept = prune_files_by_bounds([df], parse_filter_dict(fd), schema)
            code_may = bool(kept)
            n += 1
            nontrivial = (not case["may"]) or any(v in (NULL, NAN) for vs in av.values() for v in vs)
            ctx.count_case(("direct", case["file"], case["exprs"], t), nontrivial=nontrivial)
            if not code_may and case["hasMatch"]:
                ctx.violation(_sig(case, t),
                              f"file {rows} is skipped for filter {fd!r} on a {t} column although row(s) {case['rows']} satisfy it",
                              {"mode": "direct", "case": case, "type": t, "filter": repr(fd), "bounds": [repr(lo2), repr(hi2)]})
            elif code_may != case["may"]:
                drift += 1
    return n, drift


from ..values import TYPE_VALUES as _TV

_F32_VALUES = _TV["float"]


def _e2e(ctx: Ctx, cases: List[Dict[str, Any]], type_list: List[str], max_filters: int, seed: int) -> int:
    """Real tables: every distinct abstract file becomes one appended data file; each filter is
    scanned with pruning and with pruning replaced by the identity function."""
    import datashard.filters as filters_mod
    from datashard import create_table

    real_prune = filters_mod.prune_files_by_bounds
    total = 0
    k1 = [c for c in cases if c["kind"] == 1]
    for t in type_list:
        is_float = t in FLOAT_TYPES
        mine = [c for c in k1 if c["isFloat"] == is_float and all(concretisable(t, vs) for vs in _abstract_values(c).values())]
        files: Dict[str, List[Dict[str, Any]]] = {}
        filt: Dict[str, Dict[str, Any]] = {}
        for c in mine:
            files.setdefault(json.dumps(c["file"]), c["file"])
            filt.setdefault(json.dumps(c["exprs"]), c)
        file_list = sorted(files.items())
        r = rng(seed, "c13-e2e", t)
        filter_keys = sorted(filt)
        if len(filter_keys) > max_filters:
            # types with a literal-perturbation pass get a larger sample: the unsound cases need the literal ON a file's bound
            filter_keys = r.sample(filter_keys, min(len(filter_keys), max_filters * (6 if t in ("float", "date", "timestamp") else 1)))
        oracle: Dict[Tuple[str, str], List[int]] = {(json.dumps(c["file"]), json.dumps(c["exprs"])): c["rows"] for c in mine}
        d = scratch_dir("c13")
        try:
            types = {"a": t}
            schema = _schema(types)
            tbl = create_table(os.path.join(d, "t"), schema)
            rid_of: Dict[int, Tuple[str, int]] = {}
            rid = 0
            for fk, frows in file_list:
                recs = []
                for i, row in enumerate(frows):
                    recs.append({"a": conc(t, row["a"]), "rid": rid})
                    rid_of[rid] = (fk, i + 1)
                    rid += 1
                tbl.append_records(recs)
            # bounds as they come back through the real manifest write/read, vs the true column min/max
            by_rid = {}
            for dfile in tbl._get_all_data_files():
                rows = tbl.file_manager.data_file_manager.read_data_file(dfile.file_path)
                vals = [x["a"] for x in rows if x["a"] is not None]
                nums = [v for v in vals if not (isinstance(v, float) and v != v)]
                if nums:
                    exp_lo, exp_hi = min(nums), max(nums)
                elif vals:
                    exp_lo = exp_hi = float("nan")
                else:
                    exp_lo = exp_hi = None
                got_lo = (dfile.lower_bounds or {}).get(1)
                got_hi = (dfile.upper_bounds or {}).get(1)
                total += 1
                for nm, exp, got in (("lower", exp_lo, got_lo), ("upper", exp_hi, got_hi)):
                    if not (exp is None and got is None) and not same(exp, got):
                        ctx.violation(f"bounds-manifest-roundtrip:{t}",
                                      f"{nm} bound of a {t} column with values {vals!r} reads back from the manifest as {got!r} (expected {exp!r})",
                                      {"mode": "e2e-bounds", "type": t, "values": repr(vals), "got": repr(got), "expected": repr(exp)})
            for fkey in filter_keys:
                case = filt[fkey]
                fd = _filter_dict(case, types)
                expect = sorted(r_ for r_, (fk, i) in rid_of.items() if i in oracle.get((fk, fkey), []))
                filters_mod.prune_files_by_bounds = real_prune
                got_p = sorted(x["rid"] for x in tbl.scan(filter=fd, verify_checksums=False))
                filters_mod.prune_files_by_bounds = lambda data_files, expressions, schema: data_files
                try:
                    got_u = sorted(x["rid"] for x in tbl.scan(filter=fd, verify_checksums=False))
                finally:
                    filters_mod.prune_files_by_bounds = real_prune
                total += 1
                ctx.count_case(("e2e", t, fkey), nontrivial=True)
                if got_p != got_u:
                    missing = sorted(set(got_u) - set(got_p))
                    fk0 = rid_of[missing[0]][0] if missing else None
                    fake_case = {"file": json.loads(fk0) if fk0 else [], "exprs": case["exprs"]}
                    ctx.violation(_sig(fake_case, t),
                                  f"scan(filter={fd!r}) on a {t} column returns {len(got_p)} rows with pruning and {len(got_u)} without; "
                                  f"lost row ids {missing[:5]} (file {fk0})",
                                  {"mode": "e2e", "type": t, "filter": repr(fd), "with_pruning": got_p, "without": got_u})
                if t in ("float", "date", "timestamp"):
                    # the same filter with the literals written as the DECIMALS a user would type (0.1, not f32(0.1)):
                    # as doubles they differ from every stored float32, and the engine's own treatment of them differs
                    # per operator (comparisons promote to double, is_in casts the set to float32) - whatever the
                    # engine answers, pruning must not change it.  No reference oracle here: pruned vs. unpruned only.
                    # Likewise for temporal columns: a date column filtered with a datetime literal (noon of that day) and a
                    # timestamp column filtered with a date literal.
                    def dec(v: Any) -> Any:
                        import datetime as _dt

                        if t == "date" and isinstance(v, _dt.date) and not isinstance(v, _dt.datetime):
                            return _dt.datetime.combine(v, _dt.time(12, 0))
                        if t == "timestamp" and isinstance(v, _dt.datetime):
                            return v.date()
                        if t == "float" and isinstance(v, float) and v == v:
                            for i_, x_ in enumerate(_F32_VALUES):
                                if x_ == v:
                                    return FLOAT_DECIMALS[i_]
                        return v

                    fd2 = {c_: ((o_[0], [dec(x) for x in o_[1]]) if o_[0] in ("in", "not_in") else
                                (o_[0], tuple(dec(x) for x in o_[1])) if o_[0] == "between" else (o_[0], dec(o_[1])))
                           for c_, o_ in fd.items()}
                    if repr(fd2) != repr(fd):
                        filters_mod.prune_files_by_bounds = real_prune
                        def scan2() -> Any:
                            try:
                                return sorted(x["rid"] for x in tbl.scan(filter=fd2, verify_checksums=False))
                            except Exception as e_:  # noqa: BLE001 - the engine may refuse a cross-type literal
                                return f"raises {type(e_).__name__}"

                        got_p2 = scan2()
                        filters_mod.prune_files_by_bounds = lambda data_files, expressions, schema: data_files
                        try:
                            got_u2 = scan2()
                        finally:
                            filters_mod.prune_files_by_bounds = real_prune
                        total += 1
                        ctx.count_case(("e2e-decimal", t, fkey), nontrivial=True)
                        if isinstance(got_u2, str):
                            pass        # without pruning the engine refuses the literal: there is no answer for pruning to change
                        elif got_p2 != got_u2:
                            missing = sorted(set(got_u2) - set(got_p2)) if not isinstance(got_p2, str) else got_p2
                            ops = "+".join(e["op"] for e in case["exprs"])
                            ctx.violation(f"prune-unsound:{ops}:{'decimal-literal:float32' if t == 'float' else 'cross-temporal-literal:' + t}",
                                          f"scan(filter={fd2!r}) on a {t} column returns {got_p2 if isinstance(got_p2, str) else len(got_p2)} rows with pruning and {len(got_u2)} without; "
                                          f"lost row ids {missing[:5] if isinstance(missing, list) else missing}",
                                          {"mode": "e2e-decimal", "type": t, "filter": repr(fd2), "with_pruning": got_p2, "without": got_u2})
                if got_p != got_u:
                    pass
                elif got_u != expect:
                    # the unpruned engine disagrees with the reference semantics: that is C12's subject;
                    # C13 only requires pruned == unpruned.  Recorded as a note in the evidence.
                    ctx.cov.setdefault("engine_vs_reference_mismatch", 0)
                    ctx.cov["engine_vs_reference_mismatch"] += 1
        finally:
            filters_mod.prune_files_by_bounds = real_prune
            shutil.rmtree(d, ignore_errors=True)
    return total


def run(ctx: Ctx) -> None:
    quick = ctx.tier == "quick"
    out = os.path.join(scratch_dir("c13out"), "cases.ndjson")
    max_rows = 2 if quick else 3
    cfg = tlc.make_cfg(spec="Spec", constants={"Guard": True, "MaxRows": max_rows}, invariants=["PruneSound"], postcondition="Export")
    res = tlc.run_tlc("MC_Prune", cfg, env={"VERIF_OUT": out}, timeout_s=900, label=f"MC_Prune Guard=TRUE MaxRows={max_rows}")
    ctx.add_tlc(res)
    if not res.ok:
        ctx.violation("model:PruneSound", f"TLC: {res.violated} violated in the pruning model (transcription of _file_may_match)", res.error_trace[:4000])
        return
    # anti-vacuity companion: with the float guard off the model must exhibit the NaN counterexample
    cfg0 = tlc.make_cfg(spec="Spec", constants={"Guard": False, "MaxRows": 2}, invariants=["PruneSound"])
    res0 = tlc.run_tlc("MC_Prune", cfg0, timeout_s=600, label="MC_Prune Guard=FALSE (must fail)")
    if "PruneSound" not in res0.violated:
        raise MachineryError("anti-vacuity: the unguarded model no longer exhibits the NaN/!= counterexample")
    ctx.cov["anti_vacuity"] = "unguarded model violates PruneSound as expected"

    cases = [json.loads(line) for line in open(out)]
    if len(cases) != res.distinct:
        raise MachineryError(f"exported {len(cases)} cases but TLC checked {res.distinct} states")
    types = ALL_TYPES + ["longstring", "verylongstring"]
    n, drift = _direct(ctx, cases, types)
    ctx.cov["direct_decisions"] = n
    ctx.cov["model_drift_notes"] = drift
    e2e_types = ["double", "float", "long", "string", "longstring", "verylongstring", "date"] if quick else ALL_TYPES + ["longstring", "verylongstring"]
    n2 = _e2e(ctx, cases, e2e_types, max_filters=25 if quick else 10 ** 6, seed=ctx.seed)
    ctx.cov["e2e_scans_compared"] = n2
    ctx.count_traces(n + n2)
    ctx.cov["exhaustive"] = True
    ctx.rule("cases = TLC states of MC_Prune (file multiset x operator x literal over points/NULL/NaN, plus two-column conjunctions); "
             "each concretised per column type; non-trivial = the model prunes the file or the case involves NULL/NaN; distinct by (file, exprs, type)")
    ctx.sample({"case": cases[0], "concretised_for": "long"})
    ctx.sample({"case": cases[len(cases) // 2]})
    ctx.assume("pyarrow's filter engine and min/max kernels are the execution platform (their NaN/NULL behaviour is mirrored in Filter.tla and re-checked by the differential)",
               "abstract order-preserving concretisation: 9 boundary values per column type (harness/values.py)")
