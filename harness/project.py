"""Independent reader: projects a table's storage (local directory or in-memory S3 bucket) to plain
data WITHOUT importing datashard.  Uses only json + fastavro + pyarrow.

This is the observation function shared by every conformance check: what is on storage is read
here, by code that shares nothing with the library's own read path, and compared with what the
specification says must be there.
"""
from __future__ import annotations

import hashlib
import io
import json
import os
import re
from typing import Any, Dict, Iterable, List, Optional, Tuple

import fastavro

HINT = "metadata.version-hint.text"
META_RE = re.compile(r"^v(\d+)(?:-[0-9a-f]{8})?\.metadata\.json$")


class LocalReader:
    """Raw access to a table directory (no symlink following outside, no datashard code)."""

    def __init__(self, root: str) -> None:
        self.root = os.path.realpath(root)

    def list(self) -> List[str]:
        out: List[str] = []
        for d, _dirs, files in os.walk(self.root):
            for f in files:
                out.append(os.path.relpath(os.path.join(d, f), self.root))
        return sorted(out)

    def read(self, rel: str) -> bytes:
        with open(os.path.join(self.root, rel), "rb") as f:
            return f.read()

    def exists(self, rel: str) -> bool:
        return os.path.isfile(os.path.join(self.root, rel))

    def mtime(self, rel: str) -> float:
        return os.path.getmtime(os.path.join(self.root, rel))


class DictReader:
    """Raw access to an in-memory object store: `objects` maps full key -> bytes (or an object with .body)."""

    def __init__(self, objects: Dict[str, Any], prefix: str = "") -> None:
        self.objects = objects
        self.prefix = prefix.strip("/")

    def _k(self, rel: str) -> str:
        return f"{self.prefix}/{rel}" if self.prefix else rel

    def list(self) -> List[str]:
        p = self.prefix + "/" if self.prefix else ""
        return sorted(k[len(p):] for k in self.objects if k.startswith(p))

    def _body(self, key: str) -> bytes:
        o = self.objects[key]
        return o if isinstance(o, (bytes, bytearray)) else o.body

    def read(self, rel: str) -> bytes:
        return bytes(self._body(self._k(rel)))

    def exists(self, rel: str) -> bool:
        return self._k(rel) in self.objects

    def mtime(self, rel: str) -> float:
        o = self.objects[self._k(rel)]
        return getattr(o, "mtime", 0.0)


def _strip(p: str) -> str:
    return p.lstrip("/")


def parse_hint(raw: Optional[bytes]) -> Dict[str, Any]:
    """Classify hint content independently of the library (used by observation, not as the C10 oracle)."""
    if raw is None:
        return {"cls": "missing", "name": None}
    try:
        text = raw.decode("utf-8").strip()
    except UnicodeDecodeError:
        return {"cls": "garbage", "name": None}
    if not text:
        return {"cls": "empty", "name": None}
    if text.isdigit():
        return {"cls": "legacy", "name": f"v{text}.metadata.json"}
    if META_RE.match(text):
        return {"cls": "name", "name": text}
    return {"cls": "garbage", "name": None}


def read_manifest_list(raw: bytes) -> List[Dict[str, Any]]:
    return [dict(r) for r in fastavro.reader(io.BytesIO(raw))]


def read_manifest(raw: bytes) -> List[Dict[str, Any]]:
    out = []
    for r in fastavro.reader(io.BytesIO(raw)):
        df = r["data_file"]
        out.append({
            "file": _strip(df["file_path"]),
            "status": r["status"],
            "snapshot_id": r.get("snapshot_id"),
            "sequence_number": r.get("sequence_number"),
            "file_sequence_number": r.get("file_sequence_number"),
            "record_count": df["record_count"],
            "checksum": df.get("checksum"),
            "lower_bounds": df.get("lower_bounds"),
            "upper_bounds": df.get("upper_bounds"),
        })
    return out


def read_state(reader: Any) -> Dict[str, Any]:
    """Everything on storage, parsed.  Unparseable files are reported under 'broken', never hidden."""
    files = reader.list()
    st: Dict[str, Any] = {
        "files": files, "hint_raw": None, "hint": None, "metas": {}, "lists": {}, "manifests": {},
        "data": [], "markers": {}, "temps": [], "locks": [], "other": [], "broken": {},
    }
    for rel in files:
        base = rel.rsplit("/", 1)[-1]
        if rel == HINT:
            st["hint_raw"] = reader.read(rel)
        elif base.startswith(".tmp.") or (rel.startswith("data/") and base.startswith("tmp")):
            st["temps"].append(rel)
        elif rel.startswith("metadata/inflight/"):
            try:
                st["markers"][rel] = json.loads(reader.read(rel).decode("utf-8"))
            except Exception as e:  # noqa: BLE001
                st["broken"][rel] = repr(e)
        elif rel.startswith("metadata/manifests/"):
            try:
                raw = reader.read(rel)
                if base.startswith("manifest_list_"):
                    st["lists"][rel] = [_strip(m["manifest_path"]) for m in read_manifest_list(raw)]
                else:
                    st["manifests"][rel] = read_manifest(raw)
            except Exception as e:  # noqa: BLE001
                st["broken"][rel] = repr(e)
        elif rel.startswith("metadata/") and META_RE.match(base) and rel.count("/") == 1:
            try:
                st["metas"][base] = json.loads(reader.read(rel).decode("utf-8"))
            except Exception as e:  # noqa: BLE001
                st["broken"][rel] = repr(e)
        elif rel.startswith("data/"):
            st["data"].append(rel)
        elif rel.startswith(".locks/"):
            st["locks"].append(rel)
        else:
            st["other"].append(rel)
    st["hint"] = parse_hint(st["hint_raw"])
    return st


def current_meta_name(st: Dict[str, Any]) -> Optional[str]:
    """The metadata file the hint names, if that file exists (the committed version)."""
    n = st["hint"]["name"]
    return n if n in st["metas"] else None


def snapshot_files(st: Dict[str, Any], snap: Dict[str, Any]) -> Tuple[Optional[List[str]], List[str]]:
    """(data files of a snapshot, problems).  None when the chain cannot be followed."""
    problems: List[str] = []
    lp = _strip(snap["manifest_list"])
    if lp not in st["lists"]:
        return None, [f"manifest list {lp} missing/unreadable"]
    files: List[str] = []
    for mp in st["lists"][lp]:
        if mp not in st["manifests"]:
            problems.append(f"manifest {mp} missing/unreadable")
            continue
        for e in st["manifests"][mp]:
            if e["file"] not in files:
                files.append(e["file"])
    for f in files:
        if f not in st["data"]:
            problems.append(f"data file {f} missing")
    if any("manifest" in p for p in problems):
        return None, problems
    return files, problems


def read_rows(reader: Any, rel: str) -> List[Dict[str, Any]]:
    import pyarrow.parquet as pq

    return pq.read_table(io.BytesIO(reader.read(rel))).to_pylist()


def sha256(reader: Any, rel: str) -> str:
    return hashlib.sha256(reader.read(rel)).hexdigest()


def snapshot_rows(reader: Any, st: Dict[str, Any], snap: Dict[str, Any]) -> Tuple[Optional[List[Dict[str, Any]]], List[str]]:
    files, problems = snapshot_files(st, snap)
    if files is None or problems:
        return None, problems
    rows: List[Dict[str, Any]] = []
    for f in files:
        try:
            rows.extend(read_rows(reader, f))
        except Exception as e:  # noqa: BLE001
            return None, [f"data file {f} unreadable: {e!r}"]
    return rows, []


def reachable(st: Dict[str, Any], meta: Dict[str, Any]) -> Dict[str, List[str]]:
    """All lists / manifests / data files reachable from every snapshot of one metadata version."""
    lists, mans, data = [], [], []
    for s in meta.get("snapshots", []):
        lp = _strip(s["manifest_list"])
        if lp not in lists:
            lists.append(lp)
        for mp in st["lists"].get(lp, []):
            if mp not in mans:
                mans.append(mp)
            for e in st["manifests"].get(mp, []):
                if e["file"] not in data:
                    data.append(e["file"])
    return {"lists": lists, "manifests": mans, "data": data}


def missing_reachable(st: Dict[str, Any], meta: Dict[str, Any]) -> List[str]:
    """Reachable files that are absent or unreadable (the ReachablePresent oracle)."""
    out: List[str] = []
    for s in meta.get("snapshots", []):
        lp = _strip(s["manifest_list"])
        if lp not in st["lists"]:
            out.append(lp)
            continue
        for mp in st["lists"][lp]:
            if mp not in st["manifests"]:
                out.append(mp)
                continue
            for e in st["manifests"][mp]:
                if e["file"] not in st["data"]:
                    out.append(e["file"])
    return sorted(set(out))


class Canon:
    """Canonical small integers for opaque ids, by order of first appearance (per kind)."""

    def __init__(self) -> None:
        self.maps: Dict[str, Dict[Any, int]] = {}

    def id(self, kind: str, raw: Any) -> int:
        m = self.maps.setdefault(kind, {})
        if raw not in m:
            m[raw] = len(m) + 1
        return m[raw]

    def known(self, kind: str, raw: Any) -> bool:
        return raw in self.maps.get(kind, {})
