"""In-memory, strongly consistent fake of the boto3 S3 client surface DataShard uses.

No network, no moto.  One bucket namespace per instance (the `Bucket` argument is logged, not used
for addressing).  Every request *attempt* passes, in this order:

    gate(op, kwargs)            optional; a deterministic scheduler parks the calling thread here
    log entry appended          `n` = arrival order
    hooks.before / fault table  may raise  -> fault BEFORE the effect (store untouched)
    the effect                  atomic under the store lock; S3 semantics (conditional PUT, ranges ...)
    hooks.after / fault table   may raise  -> exception AFTER the effect (the ambiguous case)

ETag = '"<md5 hex of body>"' (S3 / MinIO single-part), so two writes of the same body have the
same ETag.  LastModified derives from `clock()` at write time.

Usage (see also notes/C20.md):

    fake = FakeS3(clock=my_virtual_clock)            # default time.time
    be   = make_backend(fake, bucket="b", prefix="t") # real S3StorageBackend, .s3 is the fake
    tbl  = make_table(fake, "t", schema=schema)       # real datashard.Table, every request hits the fake
    tbl2 = make_table(fake, "t", create=False)        # a second handle on the same store
    fake.fail_next(op="put_object", key_substr="version-hint", code="SlowDown", when="after", http_status=503)
    fake.log                                          # list of dicts, one per request attempt
    fake.page_size = 2; fake.max_keys_cap = 2         # tiny pages: paginator AND direct list calls get truncated
    project.DictReader(fake.objects, "t")             # independent reader over the same store

Self-test:  cd /verif && PYTHONPATH=/repo/src:/verif /venv/bin/python -m harness.fakes3
"""
from __future__ import annotations

import contextlib
import hashlib
import io
import os
import re
import threading
import time
from datetime import datetime, timezone
from typing import Any, Callable, Dict, Iterator, List, Optional

from botocore.exceptions import ClientError

_OPNAME = {
    "put_object": "PutObject", "get_object": "GetObject", "head_object": "HeadObject",
    "delete_object": "DeleteObject", "list_objects_v2": "ListObjectsV2",
}


def client_error(code: str, message: str = "", http_status: int = 500, op: str = "put_object") -> ClientError:
    """A real botocore ClientError shaped like the ones boto3 raises."""
    return ClientError(
        error_response={"Error": {"Code": code, "Message": message or code},
                        "ResponseMetadata": {"HTTPStatusCode": http_status, "RetryAttempts": 0}},
        operation_name=_OPNAME.get(op, op),
    )


def etag_of(body: bytes) -> str:
    return '"' + hashlib.md5(body).hexdigest() + '"'


class Obj:
    """One stored object."""

    __slots__ = ("body", "etag", "mtime")

    def __init__(self, body: bytes, mtime: float) -> None:
        self.body = bytes(body)
        self.etag = etag_of(self.body)
        self.mtime = float(mtime)

    @property
    def last_modified(self) -> datetime:
        return datetime.fromtimestamp(self.mtime, tz=timezone.utc)

    def __repr__(self) -> str:
        return f"Obj({len(self.body)}B, {self.etag}, mtime={self.mtime})"


class Body:
    """Stand-in for botocore's StreamingBody."""

    def __init__(self, data: bytes) -> None:
        self._io = io.BytesIO(data)
        self.closed = False

    def read(self, amt: Optional[int] = None) -> bytes:
        return self._io.read() if amt is None or amt < 0 else self._io.read(amt)

    def iter_chunks(self, chunk_size: int = 1024) -> Iterator[bytes]:
        while True:
            c = self._io.read(chunk_size)
            if not c:
                return
            yield c

    def close(self) -> None:
        self.closed = True

    def __enter__(self) -> "Body":
        return self

    def __exit__(self, *a: Any) -> None:
        self.close()


class Hooks:
    def __init__(self) -> None:
        self.before: List[Callable[[str, Dict[str, Any]], None]] = []
        self.after: List[Callable[[str, Dict[str, Any], Any], None]] = []


class _Fault:
    def __init__(self, op: Optional[str], key_substr: Optional[str], code: str, when: str, times: int,
                 http_status: int, skip: int, exc: Any) -> None:
        self.op, self.key_substr, self.code, self.when = op, key_substr, code, when
        self.times, self.http_status, self.skip, self.exc = times, http_status, skip, exc
        self.fired = 0

    def matches(self, op: str, target: str) -> bool:
        if self.times <= 0:
            return False
        if self.op is not None and self.op != op:
            return False
        if self.key_substr is not None and self.key_substr not in target:
            return False
        return True

    def make(self, op: str) -> BaseException:
        if self.exc is not None:
            e = self.exc() if callable(self.exc) and not isinstance(self.exc, BaseException) else self.exc
            return e
        return client_error(self.code, f"injected {self.code}", self.http_status, op)


_RANGE = re.compile(r"^bytes=(\d*)-(\d*)$")


class _Paginator:
    def __init__(self, fake: "FakeS3") -> None:
        self.fake = fake

    def paginate(self, **kw: Any) -> Iterator[Dict[str, Any]]:
        cfg = kw.pop("PaginationConfig", None) or {}
        size = int(cfg.get("PageSize") or self.fake.page_size)
        kw.pop("MaxKeys", None)
        token = kw.pop("ContinuationToken", None)
        while True:
            args = dict(kw, MaxKeys=size)
            if token is not None:
                args["ContinuationToken"] = token
            page = self.fake.list_objects_v2(**args)
            yield page
            if not page.get("IsTruncated"):
                return
            token = page["NextContinuationToken"]


class FakeS3:
    """The fake client.  Public state: objects, log, hooks, gate, page_size."""

    def __init__(self, clock: Optional[Callable[[], float]] = None, page_size: int = 3) -> None:
        self.clock: Callable[[], float] = clock or time.time
        self.objects: Dict[str, Obj] = {}
        self.log: List[Dict[str, Any]] = []
        self.hooks = Hooks()
        self.gate: Optional[Callable[[str, Dict[str, Any]], None]] = None
        self.page_size = page_size              # page size used by the paginator (small: exercises pagination)
        self.mtime_granularity: Optional[float] = None   # e.g. 1.0 to mimic HTTP-date LastModified
        self.max_keys_cap = 1000                # S3 never returns more than 1000 keys per list request; lower it to
                                                # force IsTruncated even on direct list_objects_v2 calls
        self._faults: List[_Fault] = []
        self._lock = threading.RLock()
        self._n = 0

    # ---- control ------------------------------------------------------------------------------
    def fail_next(self, op: Optional[str] = None, key_substr: Optional[str] = None, code: str = "InternalError",
                  when: str = "before", times: int = 1, http_status: int = 500, skip: int = 0,
                  exc: Any = None) -> _Fault:
        """Make the next `times` matching request attempts fail (after letting `skip` of them pass).
        when="before": nothing is applied; when="after": the effect is applied, then the error is raised.
        `exc`: an exception instance/factory to raise instead of a ClientError (e.g. ConnectionError)."""
        if when not in ("before", "after"):
            raise ValueError("when must be 'before' or 'after'")
        f = _Fault(op, key_substr, code, when, times, http_status, skip, exc)
        with self._lock:
            self._faults.append(f)
        return f

    def clear_faults(self) -> None:
        with self._lock:
            self._faults = []

    def pending_faults(self) -> int:
        with self._lock:
            return sum(f.times for f in self._faults if f.times > 0)

    def reset_log(self) -> None:
        with self._lock:
            self.log = []

    def requests(self, op: Optional[str] = None, key_substr: Optional[str] = None) -> List[Dict[str, Any]]:
        with self._lock:
            return [e for e in self.log if (op is None or e["op"] == op)
                    and (key_substr is None or key_substr in (e.get("key") or e.get("prefix") or ""))]

    # direct store access for test set-up (no request, no log)
    def seed(self, key: str, body: bytes, mtime: Optional[float] = None) -> Obj:
        with self._lock:
            o = Obj(body, self._now() if mtime is None else mtime)
            self.objects[key] = o
            return o

    def _now(self) -> float:
        t = float(self.clock())
        if self.mtime_granularity:
            t = (t // self.mtime_granularity) * self.mtime_granularity
        return t

    # ---- request pipeline ---------------------------------------------------------------------
    def _fire(self, when: str, op: str, target: str) -> None:
        with self._lock:
            chosen = None
            for f in self._faults:
                if f.when == when and f.matches(op, target):
                    if f.skip > 0:
                        f.skip -= 1
                        continue
                    f.times -= 1
                    f.fired += 1
                    chosen = f
                    break
        if chosen is not None:
            raise chosen.make(op)

    @staticmethod
    def _code(e: BaseException) -> str:
        r = getattr(e, "response", None)
        if isinstance(r, dict):
            return str(r.get("Error", {}).get("Code", type(e).__name__))
        return type(e).__name__

    def _request(self, op: str, kwargs: Dict[str, Any], effect: Callable[[Dict[str, Any]], Any]) -> Any:
        if self.gate is not None:
            self.gate(op, kwargs)
        target = kwargs.get("Key")
        if target is None:
            target = kwargs.get("Prefix", "") or ""
        entry: Dict[str, Any] = {
            "n": 0, "op": op, "bucket": kwargs.get("Bucket"), "key": kwargs.get("Key"),
            "if_match": kwargs.get("IfMatch"), "if_none_match": kwargs.get("IfNoneMatch"),
            "range": kwargs.get("Range"), "status": "pending", "applied": False,
            "etag_after": None, "size": None, "thread": threading.current_thread().name,
        }
        if op == "list_objects_v2":
            entry["prefix"] = kwargs.get("Prefix", "")
            entry["token"] = kwargs.get("ContinuationToken")
        with self._lock:
            self._n += 1
            entry["n"] = self._n
            self.log.append(entry)
        try:
            for h in list(self.hooks.before):
                h(op, kwargs)
            self._fire("before", op, target)
        except BaseException as e:
            entry["status"] = self._code(e)
            entry["fault"] = "before"
            raise
        try:
            with self._lock:
                result = effect(entry)
        except BaseException as e:
            entry["status"] = self._code(e)
            raise
        entry["applied"] = True
        try:
            for h2 in list(self.hooks.after):
                h2(op, kwargs, result)
            self._fire("after", op, target)
        except BaseException as e:
            entry["status"] = self._code(e)
            entry["fault"] = "after"
            raise
        entry["status"] = "ok"
        return result

    # ---- S3 operations ------------------------------------------------------------------------
    def put_object(self, **kw: Any) -> Dict[str, Any]:
        def effect(entry: Dict[str, Any]) -> Dict[str, Any]:
            key = kw["Key"]
            body = kw.get("Body", b"")
            if hasattr(body, "read"):
                body = body.read()
            if isinstance(body, str):
                body = body.encode("utf-8")
            body = bytes(body)
            cur = self.objects.get(key)
            inm, im = kw.get("IfNoneMatch"), kw.get("IfMatch")
            if inm is not None:
                if inm != "*":
                    raise client_error("NotImplemented", "If-None-Match supports only '*' on PUT", 501, "put_object")
                if cur is not None:
                    raise client_error("PreconditionFailed", "At least one of the pre-conditions you specified did not hold", 412, "put_object")
            if im is not None:
                if cur is None:
                    raise client_error("NoSuchKey", "The specified key does not exist.", 404, "put_object")
                if cur.etag != im and im != "*":
                    raise client_error("PreconditionFailed", "At least one of the pre-conditions you specified did not hold", 412, "put_object")
            o = Obj(body, self._now())
            self.objects[key] = o
            entry["etag_after"], entry["size"] = o.etag, len(body)
            return {"ETag": o.etag, "ResponseMetadata": {"HTTPStatusCode": 200}}

        return self._request("put_object", kw, effect)

    def _get(self, key: str, op: str) -> Obj:
        o = self.objects.get(key)
        if o is None:
            if op == "head_object":
                raise client_error("404", "Not Found", 404, op)
            raise client_error("NoSuchKey", "The specified key does not exist.", 404, op)
        return o

    def get_object(self, **kw: Any) -> Dict[str, Any]:
        def effect(entry: Dict[str, Any]) -> Dict[str, Any]:
            o = self._get(kw["Key"], "get_object")
            size = len(o.body)
            data = o.body
            out: Dict[str, Any] = {"ETag": o.etag, "LastModified": o.last_modified,
                                   "ResponseMetadata": {"HTTPStatusCode": 200}}
            rng = kw.get("Range")
            m = _RANGE.match(rng) if isinstance(rng, str) else None
            if m and (m.group(1) or m.group(2)):
                a_s, b_s = m.group(1), m.group(2)
                if a_s == "":                                   # suffix: last n bytes
                    n = int(b_s)
                    if n == 0 or size == 0:
                        raise client_error("InvalidRange", "The requested range is not satisfiable", 416, "get_object")
                    a, b = max(0, size - n), size - 1
                else:
                    a = int(a_s)
                    b = size - 1 if b_s == "" else min(int(b_s), size - 1)
                    if a >= size:
                        raise client_error("InvalidRange", "The requested range is not satisfiable", 416, "get_object")
                    if b_s != "" and int(b_s) < a:              # syntactically invalid: S3 ignores the header
                        a, b = 0, size - 1
                        m = None
                if m is not None:
                    data = o.body[a:b + 1]
                    out["ContentRange"] = f"bytes {a}-{b}/{size}"
                    out["ResponseMetadata"] = {"HTTPStatusCode": 206}
                    entry["served"] = [a, b]
            out["Body"] = Body(data)
            out["ContentLength"] = len(data)
            entry["etag_after"], entry["size"] = o.etag, size
            return out

        return self._request("get_object", kw, effect)

    def head_object(self, **kw: Any) -> Dict[str, Any]:
        def effect(entry: Dict[str, Any]) -> Dict[str, Any]:
            o = self._get(kw["Key"], "head_object")
            entry["etag_after"], entry["size"] = o.etag, len(o.body)
            return {"ContentLength": len(o.body), "ETag": o.etag, "LastModified": o.last_modified,
                    "ResponseMetadata": {"HTTPStatusCode": 200}}

        return self._request("head_object", kw, effect)

    def delete_object(self, **kw: Any) -> Dict[str, Any]:
        def effect(entry: Dict[str, Any]) -> Dict[str, Any]:
            entry["existed"] = self.objects.pop(kw["Key"], None) is not None
            return {"ResponseMetadata": {"HTTPStatusCode": 204}}

        return self._request("delete_object", kw, effect)

    def list_objects_v2(self, **kw: Any) -> Dict[str, Any]:
        def effect(entry: Dict[str, Any]) -> Dict[str, Any]:
            prefix = kw.get("Prefix", "") or ""
            max_keys = min(int(kw.get("MaxKeys", 1000)), self.max_keys_cap)
            delim = kw.get("Delimiter")
            after = None
            tok = kw.get("ContinuationToken")
            if tok is not None:
                if not isinstance(tok, str) or not tok.startswith("after:"):
                    raise client_error("InvalidArgument", "The continuation token provided is incorrect", 400, "list_objects_v2")
                after = tok[len("after:"):]
            elif kw.get("StartAfter"):
                after = kw["StartAfter"]
            contents: List[Dict[str, Any]] = []
            common: List[str] = []
            truncated = False
            last = None
            for k in sorted(self.objects):
                if not k.startswith(prefix):
                    continue
                item: Any = k
                if delim:
                    i = k.find(delim, len(prefix))
                    if i >= 0:
                        item = ("cp", k[: i + len(delim)])
                marker = item[1] if isinstance(item, tuple) else item
                if after is not None and (marker <= after if not isinstance(item, tuple) else (marker <= after or after.startswith(marker))):
                    continue
                if isinstance(item, tuple) and item[1] in common:
                    continue
                if len(contents) + len(common) >= max_keys:
                    truncated = True
                    break
                if isinstance(item, tuple):
                    common.append(item[1])
                else:
                    o = self.objects[k]
                    contents.append({"Key": k, "Size": len(o.body), "ETag": o.etag,
                                     "LastModified": o.last_modified, "StorageClass": "STANDARD"})
                last = marker
            out: Dict[str, Any] = {"Name": kw.get("Bucket"), "Prefix": prefix, "MaxKeys": max_keys,
                                   "IsTruncated": truncated, "KeyCount": len(contents) + len(common),
                                   "ResponseMetadata": {"HTTPStatusCode": 200}}
            if contents:
                out["Contents"] = contents
            if common:
                out["CommonPrefixes"] = [{"Prefix": p} for p in common]
            if truncated and last is not None:
                out["NextContinuationToken"] = "after:" + last
            entry["size"] = out["KeyCount"]
            entry["keys"] = [c["Key"] for c in contents]
            return out

        return self._request("list_objects_v2", kw, effect)

    def get_paginator(self, name: str) -> _Paginator:
        if name != "list_objects_v2":
            raise NotImplementedError(name)
        return _Paginator(self)

    # convenience for assertions
    def keys(self, prefix: str = "") -> List[str]:
        with self._lock:
            return sorted(k for k in self.objects if k.startswith(prefix))


# ---------------------------------------------------------------------------------------------------
# pyarrow filesystem over the fake (the library writes parquet through DataFileManager._pyarrow_fs)
# ---------------------------------------------------------------------------------------------------

class _PutOnClose(io.BytesIO):
    """Buffer that becomes one put_object when closed (like an S3 upload completing at close)."""

    def __init__(self, fake: FakeS3, bucket: str, key: str) -> None:
        super().__init__()
        self._fake, self._bucket, self._key = fake, bucket, key
        self._done = False

    def close(self) -> None:
        if not self._done:
            self._done = True
            data = self.getvalue()
            try:
                self._fake.put_object(Bucket=self._bucket, Key=self._key, Body=data)
            finally:
                super().close()
        else:
            super().close()


def _split(path: str) -> "tuple[str, str]":
    path = path.lstrip("/")
    bucket, _, key = path.partition("/")
    return bucket, key


def make_arrow_fs(fake: FakeS3) -> Any:
    """pyarrow.fs.PyFileSystem whose paths are 'bucket/key' and whose writes are fake.put_object calls."""
    import pyarrow as pa
    import pyarrow.fs as pafs

    class Handler(pafs.FileSystemHandler):
        def __eq__(self, other: Any) -> bool:
            return self is other

        def __ne__(self, other: Any) -> bool:
            return self is not other

        def get_type_name(self) -> str:
            return "fakes3"

        def normalize_path(self, path: str) -> str:
            return path

        def _info(self, path: str) -> Any:
            bucket, key = _split(path)
            with fake._lock:
                o = fake.objects.get(key)
                if o is not None:
                    return pafs.FileInfo(path, pafs.FileType.File, size=len(o.body), mtime=o.mtime)
                p = key.rstrip("/") + "/" if key else ""
                if key == "" or any(k.startswith(p) for k in fake.objects):
                    return pafs.FileInfo(path, pafs.FileType.Directory)
            return pafs.FileInfo(path, pafs.FileType.NotFound)

        def get_file_info(self, paths: List[str]) -> List[Any]:
            return [self._info(p) for p in paths]

        def get_file_info_selector(self, selector: Any) -> List[Any]:
            bucket, key = _split(selector.base_dir)
            p = key.rstrip("/") + "/" if key else ""
            out = []
            with fake._lock:
                for k, o in sorted(fake.objects.items()):
                    if k.startswith(p) and (selector.recursive or "/" not in k[len(p):]):
                        out.append(pafs.FileInfo(f"{bucket}/{k}", pafs.FileType.File, size=len(o.body), mtime=o.mtime))
            return out

        def create_dir(self, path: str, recursive: bool) -> None:
            return None

        def delete_dir(self, path: str) -> None:
            self.delete_dir_contents(path)

        def delete_dir_contents(self, path: str, missing_dir_ok: bool = False) -> None:
            bucket, key = _split(path)
            p = key.rstrip("/") + "/"
            for k in fake.keys(p):
                fake.delete_object(Bucket=bucket, Key=k)

        def delete_root_dir_contents(self) -> None:
            raise NotImplementedError

        def delete_file(self, path: str) -> None:
            bucket, key = _split(path)
            fake.delete_object(Bucket=bucket, Key=key)

        def move(self, src: str, dest: str) -> None:
            self.copy_file(src, dest)
            self.delete_file(src)

        def copy_file(self, src: str, dest: str) -> None:
            b1, k1 = _split(src)
            b2, k2 = _split(dest)
            data = fake.get_object(Bucket=b1, Key=k1)["Body"].read()
            fake.put_object(Bucket=b2, Key=k2, Body=data)

        def open_input_stream(self, path: str) -> Any:
            return self.open_input_file(path)

        def open_input_file(self, path: str) -> Any:
            bucket, key = _split(path)
            try:
                data = fake.get_object(Bucket=bucket, Key=key)["Body"].read()
            except ClientError as e:
                if e.response["Error"]["Code"] == "NoSuchKey":
                    raise FileNotFoundError(path) from e
                raise
            return pa.BufferReader(data)

        def open_output_stream(self, path: str, metadata: Any = None) -> Any:
            bucket, key = _split(path)
            return pa.PythonFile(_PutOnClose(fake, bucket, key), mode="w")

        def open_append_stream(self, path: str, metadata: Any = None) -> Any:
            raise NotImplementedError("S3 has no append")

    return pafs.PyFileSystem(Handler())


def install_arrow_fs(table_or_dfm: Any, fake: FakeS3) -> Any:
    """Replace DataFileManager._pyarrow_fs (pyarrow S3FileSystem) by a filesystem over the fake.
    Accepts a datashard.Table, a FileManager or a DataFileManager.  Returns the filesystem."""
    dfm = table_or_dfm
    if hasattr(dfm, "file_manager") and not hasattr(dfm, "_pyarrow_fs"):
        dfm = dfm.file_manager
    if hasattr(dfm, "data_file_manager") and not hasattr(dfm, "_pyarrow_fs"):
        dfm = dfm.data_file_manager
    if not hasattr(dfm, "_pyarrow_fs"):
        raise TypeError(f"cannot find a DataFileManager in {table_or_dfm!r}")
    fs = make_arrow_fs(fake)
    dfm._pyarrow_fs = fs
    return fs


# ---------------------------------------------------------------------------------------------------
# Constructing the real library objects on top of the fake
# ---------------------------------------------------------------------------------------------------

_patch_lock = threading.RLock()


@contextlib.contextmanager
def patched_boto(fake: FakeS3) -> Iterator[None]:
    """Within the block, boto3.session.Session().client('s3', ...) returns the fake and DataFileManager
    builds its pyarrow filesystem over the fake.  (Table.__init__ already talks to S3, so the fake has to be
    in place before construction.)"""
    import boto3.session

    from datashard import data_operations

    with _patch_lock:
        real_session = boto3.session.Session
        real_top = getattr(boto3, "Session", None)
        real_fs = data_operations.DataFileManager._get_arrow_filesystem

        class _StubSession:
            """Stands in for boto3.session.Session (constructing a real one costs ~10 ms: botocore
            registers ~130 event handlers).  Only what the library uses: .client('s3', ...)."""

            def __init__(self, *a: Any, **kw: Any) -> None:
                self._real: Any = None

            def client(self, service_name: str, *a: Any, **kw: Any) -> Any:
                if service_name == "s3":
                    return fake
                if self._real is None:
                    self._real = real_session()
                return self._real.client(service_name, *a, **kw)

            def __getattr__(self, name: str) -> Any:
                if self._real is None:
                    self._real = real_session()
                return getattr(self._real, name)

        def arrow_fs(self: Any) -> Any:
            from datashard.storage_backend import S3StorageBackend

            if isinstance(self.storage, S3StorageBackend):
                return make_arrow_fs(fake)
            return None

        boto3.session.Session = _StubSession  # type: ignore[misc,assignment]
        if real_top is not None:
            boto3.Session = _StubSession  # type: ignore[misc,assignment]
        data_operations.DataFileManager._get_arrow_filesystem = arrow_fs  # type: ignore[method-assign]
        try:
            yield
        finally:
            boto3.session.Session = real_session  # type: ignore[misc]
            if real_top is not None:
                boto3.Session = real_top  # type: ignore[misc]
            data_operations.DataFileManager._get_arrow_filesystem = real_fs  # type: ignore[method-assign]


_ENV_KEYS = ("DATASHARD_STORAGE_TYPE", "DATASHARD_S3_BUCKET", "DATASHARD_S3_REGION", "DATASHARD_S3_ACCESS_KEY",
             "DATASHARD_S3_SECRET_KEY", "DATASHARD_S3_USE_CONDITIONAL_WRITES", "DATASHARD_S3_PREFIX",
             "DATASHARD_S3_ENDPOINT")


def s3_env_values(bucket: str = "b", conditional: bool = True, env_prefix: str = "") -> Dict[str, Optional[str]]:
    return {
        "DATASHARD_STORAGE_TYPE": "s3", "DATASHARD_S3_BUCKET": bucket, "DATASHARD_S3_REGION": "us-east-1",
        "DATASHARD_S3_ACCESS_KEY": "fake-access", "DATASHARD_S3_SECRET_KEY": "fake-secret",
        "DATASHARD_S3_USE_CONDITIONAL_WRITES": "true" if conditional else "false",
        "DATASHARD_S3_PREFIX": env_prefix or None, "DATASHARD_S3_ENDPOINT": None,
    }


@contextlib.contextmanager
def s3_env(bucket: str = "b", conditional: bool = True, env_prefix: str = "", keep: bool = False) -> Iterator[None]:
    """Set the DATASHARD_* variables that select the S3 backend; restored on exit unless keep=True.
    (The library reads them only inside create_storage_backend, i.e. at Table construction.)"""
    old = {k: os.environ.get(k) for k in _ENV_KEYS}
    for k, v in s3_env_values(bucket, conditional, env_prefix).items():
        if v is None:
            os.environ.pop(k, None)
        else:
            os.environ[k] = v
    try:
        yield
    finally:
        if not keep:
            for k, v in old.items():
                if v is None:
                    os.environ.pop(k, None)
                else:
                    os.environ[k] = v


def make_backend(fake: FakeS3, bucket: str = "b", prefix: str = "t", conditional: bool = True) -> Any:
    """The real S3StorageBackend with its client replaced by the fake."""
    from datashard.storage_backend import S3StorageBackend

    with patched_boto(fake):
        be = S3StorageBackend(bucket=bucket, access_key="fake-access", secret_key="fake-secret",
                              region="us-east-1", prefix=prefix, use_conditional_writes=conditional)
    be.s3 = fake
    return be


def make_table(fake: FakeS3, table_path: str = "t", schema: Any = None, conditional: bool = True,
               create: bool = True, bucket: str = "b", env_prefix: str = "", keep_env: bool = False,
               partition_spec: Any = None) -> Any:
    """A fully working datashard.Table on the fake: backend, lock provider and parquet writes all hit
    `fake` (same log/hooks/gate).  create=False opens an existing table (another handle)."""
    from datashard import Table

    with s3_env(bucket, conditional, env_prefix, keep=keep_env), patched_boto(fake):
        t = Table(table_path, create_if_not_exists=create, schema=schema, partition_spec=partition_spec)
    # belt and braces: make sure nothing kept a real client
    t.storage.s3 = fake
    lp = getattr(t.metadata_manager, "lock_provider", None)
    if lp is not None and hasattr(lp, "s3"):
        lp.s3 = fake
    install_arrow_fs(t, fake)
    return t


# ---------------------------------------------------------------------------------------------------
# Self-test
# ---------------------------------------------------------------------------------------------------

def _selftest() -> None:
    import socket

    # no network may be touched: make any attempt fail loudly
    def _no_net(*a: Any, **k: Any) -> Any:
        raise AssertionError("network access attempted")

    socket.socket.connect = _no_net  # type: ignore[method-assign]

    now = [1_700_000_000.0]
    fake = FakeS3(clock=lambda: now[0])

    # --- raw client semantics
    r = fake.put_object(Bucket="b", Key="k/a", Body=b"hello")
    assert r["ETag"] == etag_of(b"hello") == fake.objects["k/a"].etag
    assert fake.put_object(Bucket="b", Key="k/a", Body=io.BytesIO(b"hello"))["ETag"] == r["ETag"]

    def code(f: Callable[[], Any]) -> str:
        try:
            f()
        except ClientError as e:
            return e.response["Error"]["Code"] + ":" + str(e.response["ResponseMetadata"]["HTTPStatusCode"])
        return "ok"

    assert code(lambda: fake.put_object(Bucket="b", Key="k/a", Body=b"x", IfNoneMatch="*")) == "PreconditionFailed:412"
    assert code(lambda: fake.put_object(Bucket="b", Key="k/new", Body=b"x", IfNoneMatch="*")) == "ok"
    assert code(lambda: fake.put_object(Bucket="b", Key="k/a", Body=b"y", IfMatch='"nope"')) == "PreconditionFailed:412"
    assert code(lambda: fake.put_object(Bucket="b", Key="k/none", Body=b"y", IfMatch='"nope"')) == "NoSuchKey:404"
    assert code(lambda: fake.put_object(Bucket="b", Key="k/a", Body=b"y", IfMatch=r["ETag"])) == "ok"
    assert fake.objects["k/a"].body == b"y"
    assert code(lambda: fake.get_object(Bucket="b", Key="zz")) == "NoSuchKey:404"
    assert code(lambda: fake.head_object(Bucket="b", Key="zz")) == "404:404"
    fake.put_object(Bucket="b", Key="r", Body=b"0123456789")
    g = fake.get_object(Bucket="b", Key="r", Range="bytes=2-4")
    assert g["Body"].read() == b"234" and g["ContentRange"] == "bytes 2-4/10" and g["ContentLength"] == 3
    assert fake.get_object(Bucket="b", Key="r", Range="bytes=8-99")["Body"].read() == b"89"
    assert fake.get_object(Bucket="b", Key="r", Range="bytes=7-")["Body"].read() == b"789"
    assert fake.get_object(Bucket="b", Key="r", Range="bytes=-3")["Body"].read() == b"789"
    assert code(lambda: fake.get_object(Bucket="b", Key="r", Range="bytes=10-12")) == "InvalidRange:416"
    b = fake.get_object(Bucket="b", Key="r")["Body"]
    assert b.read(4) == b"0123" and b.read() == b"456789" and b.read() == b""
    h = fake.head_object(Bucket="b", Key="r")
    assert h["ContentLength"] == 10 and h["LastModified"].timestamp() == now[0] and h["LastModified"].tzinfo is not None
    assert fake.delete_object(Bucket="b", Key="r")["ResponseMetadata"]["HTTPStatusCode"] == 204
    fake.delete_object(Bucket="b", Key="r")
    for i in range(7):
        fake.put_object(Bucket="b", Key=f"data/{i}", Body=b"x" * i)
    fake.put_object(Bucket="b", Key="data2/y", Body=b"")
    pages = list(fake.get_paginator("list_objects_v2").paginate(Bucket="b", Prefix="data"))
    keys = [c["Key"] for p in pages for c in p.get("Contents", [])]
    assert keys == [f"data/{i}" for i in range(7)] + ["data2/y"] and len(pages) == 3, (keys, len(pages))
    assert "Contents" not in fake.list_objects_v2(Bucket="b", Prefix="nope")
    lp = fake.list_objects_v2(Bucket="b", Prefix="", Delimiter="/")
    assert [c["Prefix"] for c in lp["CommonPrefixes"]] == ["data/", "data2/", "k/"], lp

    # --- faults, before and after the effect
    fake.fail_next(op="put_object", key_substr="amb", code="SlowDown", when="after", http_status=503)
    assert code(lambda: fake.put_object(Bucket="b", Key="amb", Body=b"1")) == "SlowDown:503" and "amb" in fake.objects
    fake.fail_next(op="put_object", key_substr="pre", when="before")
    assert code(lambda: fake.put_object(Bucket="b", Key="pre", Body=b"1")) == "InternalError:500" and "pre" not in fake.objects
    e = fake.requests("put_object", "amb")[-1]
    assert e["status"] == "SlowDown" and e["applied"] and e["fault"] == "after"
    seen: List[str] = []
    fake.gate = lambda op, kw: seen.append(op)
    fake.hooks.before.append(lambda op, kw: seen.append("b:" + op))
    fake.hooks.after.append(lambda op, kw, res: seen.append("a:" + op))
    fake.head_object(Bucket="b", Key="amb")
    assert seen == ["head_object", "b:head_object", "a:head_object"], seen
    fake.gate = None
    fake.hooks.before.clear()
    fake.hooks.after.clear()

    # --- the real backend on the fake
    fake = FakeS3(clock=lambda: now[0])
    be = make_backend(fake, prefix="t")
    be.write_file("data/x", b"abc")
    assert be.read_file("data/x") == b"abc" and be.exists("data/x") and not be.exists("data")
    assert be.get_size("data/x") == 3 and be.get_modified_time("data/x") == now[0]
    with be.open_seekable("data/x") as f:
        f.seek(1)
        assert f.read() == b"bc"
    be.write_file_cas("c", b"1", None)
    body, et = be.read_file_with_etag("c")
    be.write_file_cas("c", b"2", et)
    from datashard.storage_backend import CASConflictError
    try:
        be.write_file_cas("c", b"3", et)
        raise AssertionError("stale CAS accepted")
    except CASConflictError:
        pass

    # --- a real table, two handles, everything offline
    from datashard import Schema

    fake = FakeS3(clock=lambda: now[0])
    schema = Schema(schema_id=1, fields=[{"id": 1, "name": "id", "type": "long", "required": True},
                                         {"id": 2, "name": "v", "type": "string", "required": False}])
    t1 = make_table(fake, "t", schema=schema)
    assert os.environ.get("DATASHARD_STORAGE_TYPE") is None
    assert t1.storage.s3 is fake and t1.metadata_manager.lock_provider.s3 is fake
    now[0] += 1
    assert t1.append_records([{"id": 1, "v": "a"}, {"id": 2, "v": None}])
    now[0] += 1
    assert t1.append_records([{"id": 3, "v": "c"}])
    rows = sorted(t1.scan(), key=lambda r: r["id"])
    assert [r["id"] for r in rows] == [1, 2, 3], rows
    data_keys = [k for k in fake.keys("t/data/") if k.endswith(".parquet")]
    assert len(data_keys) == 2, fake.keys()
    assert any(e["op"] == "put_object" and (e["key"] or "").endswith(".parquet") for e in fake.log), "parquet writes bypassed the fake"
    assert any(".locks/" in (e["key"] or "") and e["if_none_match"] == "*" for e in fake.log), "lock requests bypassed the fake"
    assert not fake.keys("t/.locks/"), "lock object left behind"

    t2 = make_table(fake, "t", create=False)
    assert sorted(r["id"] for r in t2.scan()) == [1, 2, 3]
    files = t2._get_all_data_files()
    victim = files[0].file_path
    with t2.new_transaction() as tx:
        tx.delete_files([victim])
        tx.commit()
    now[0] += 1
    t1.refresh()
    left = sorted(r["id"] for r in t1.scan())
    assert left in ([3], [1, 2]), left
    # an old orphan and garbage collection
    fake.seed("t/data/orphan.parquet", b"junk", mtime=now[0] - 10 * 3600)
    now[0] += 2 * 3600
    real_time = time.time
    time.time = lambda: now[0]          # the collector's notion of "now" must match the object mtimes
    try:
        res = t1.garbage_collect(grace_period_ms=3600 * 1000)
    finally:
        time.time = real_time
    assert "t/data/orphan.parquet" not in fake.objects, (res, fake.keys("t/data/"))
    assert sorted(r["id"] for r in t1.scan()) == left

    # the independent reader sees the same store
    from harness import project

    st = project.read_state(project.DictReader(fake.objects, "t"))
    assert st["hint"]["name"] in st["metas"] and not st["broken"], (st["hint"], st["broken"])
    cur = st["metas"][st["hint"]["name"]]
    snap = [s for s in cur["snapshots"] if s["snapshot_id"] == cur["current_snapshot_id"]][0]
    rows2, problems = project.snapshot_rows(project.DictReader(fake.objects, "t"), st, snap)
    assert not problems and sorted(r["id"] for r in rows2) == left, (problems, rows2)

    # fault on a parquet upload surfaces as an exception from the append
    flt = fake.fail_next(op="put_object", key_substr="t/data/", code="AccessDenied", http_status=403)
    try:
        t1.append_records([{"id": 9, "v": "z"}])
        raise AssertionError("injected upload failure was swallowed")
    except ClientError as e:
        assert e.response["Error"]["Code"] == "AccessDenied"
    assert flt.fired == 1 and fake.pending_faults() == 0
    assert sorted(r["id"] for r in make_table(fake, "t", create=False).scan()) == left

    # polling lock provider (no conditional writes) and concurrent use from threads
    fake2 = FakeS3()
    t3 = make_table(fake2, "p/q", schema=schema, conditional=False)
    assert type(t3.metadata_manager.lock_provider).__name__ == "S3PollingLockProvider"
    assert t3.append_records([{"id": 1, "v": "a"}]) and [r["id"] for r in t3.scan()] == [1]
    errs: List[BaseException] = []

    def hammer(i: int) -> None:
        try:
            for j in range(200):
                fake2.put_object(Bucket="b", Key=f"h/{i}/{j}", Body=b"%d" % j)
                fake2.list_objects_v2(Bucket="b", Prefix="h/")
                fake2.delete_object(Bucket="b", Key=f"h/{i}/{j}")
        except BaseException as e:  # noqa: BLE001
            errs.append(e)

    ths = [threading.Thread(target=hammer, args=(i,)) for i in range(4)]
    [x.start() for x in ths]
    [x.join() for x in ths]
    assert not errs and not fake2.keys("h/"), errs
    ns = [e["n"] for e in fake2.log]
    assert ns == sorted(ns) and len(set(ns)) == len(ns)
    print(f"OK ({len(fake.log)} requests logged, {len(fake.objects)} objects)")


if __name__ == "__main__":
    _selftest()
