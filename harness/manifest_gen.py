"""Regenerates /verif/MANIFEST.json from the table below (run: /venv/bin/python -m harness.manifest_gen).

One entry per claimed property; every property of properties.jsonl that has no entry is listed
under not_applicable with the reason given in NOT_YET / NOT_APPLICABLE.
"""
from __future__ import annotations

import json
import os
import subprocess

from .common import VERIF

HOOK_COMMITS: list = []

ENGINES = [
    {"name": "tlc", "path": "/opt/veriftools/tla/tla2tools.jar", "serves_properties": [],
     "kind_free_text": "TLC 1.8 explicit-state model checker (exhaustive + -simulate), also used as trace validator and as case enumerator/oracle for function-level specifications"},
    {"name": "harness", "path": "harness/", "serves_properties": [],
     "kind_free_text": "Python conformance harness: deterministic baton scheduler over the real library, storage/clock/lock proxies, in-memory S3, independent reader, strace-based syscall tracing; binds spec <-> code in both directions"},
]

CHECKS: dict = {
    "C13": {
        "category": "model_checking",
        "text": "TLC proves the pruning theorem PruneSound on the complete small domain of (file value multiset incl. NULL/NaN, operator, literal / literal set, two-column conjunctions); the exported decision table is then executed case by case, concretised with boundary values for every column type, against the real bound computation, the real manifest bound round trip and the real prune_files_by_bounds, and end-to-end (real tables scanned with pruning and with pruning replaced by the identity). Right level: the decision is a pure function over an order, so a small ordered domain with in-between literals covers every comparison outcome.",
        "design_ref": "DESIGN.md 6/C13",
        "note": "Trusted: TLC, pyarrow's min/max and filter kernels (their NULL/NaN behaviour is mirrored in Filter.tla and re-checked by the differential), the order-preserving concretisation in harness/values.py. Bounded: files of <= 3 rows (quick: 2), 9 literal positions, 9 column types.",
        "technique": "TLA+ function spec (Filter.tla) model-checked by TLC; TLC-exported decision table replayed into the real code (differential + end-to-end pruned vs unpruned scans)",
    },
}

CHECKS["C01"] = {
    "category": "model_checking",
    "text": "TLC explores every interleaving of the L1 protocol model (DataShard.tla: one action per storage operation, lock request and stored clock read) for 2-3 committers mixing appends, deletes, expiries and snapshot deletions over separate/shared handles, strict/coarse/frozen clocks, local and CAS backends, checking Serializable (table = acknowledged history applied in pointer order), AckedOnce, LinearChain, FlipReplacesValidated. The model is bound to the code by trace validation: the same scenarios run on the real library under a deterministic scheduler (every storage call is a scheduling point; all single-pause schedules plus seeded double-pause/random ones), and TLC validates every recorded trace against the same actions, comparing the metadata/manifests the code wrote with what the model computes and evaluating every invariant after every event. Right level: the property quantifies over schedules; exhaustive interleaving of the protocol steps is what decides it.",
    "design_ref": "DESIGN.md 6/C01, 4.2, 5",
    "note": "Trusted: TLC, the baton scheduler's serialisation of actor threads (no true parallelism inside one storage call), call-stack based tagging of pointer reads, the independent reader. Bounded: <=3 committers, <=2 operations each, model retries <=2 (real executions use the library's 50), canonical ids (no 63-bit collisions).",
    "technique": "TLA+ protocol spec (DataShard.tla) model-checked by TLC; trace validation of real scheduled executions against the same spec (Trace_L1.tla)",
}

CHECKS["C02"] = {
    "category": "model_checking",
    "text": "TLC explores every interleaving of a reader's steps (pointer resolution, manifest list, manifests, data files, return) with writers performing multi-file transactions, deletes (manifest rewrites), multi-operation transactions and shared-handle commits, checking ReadIsSnapshot (what a read returns is the file set of one snapshot that was current between its start and its end) and ReadsMonotone (per handle, never backwards). Binding: the same scenarios run on the real library under the deterministic scheduler with every read API (scan, parallel scan, batch and record iteration, row_count, filtered/projected scan, checksum verification on/off); TLC validates each recorded trace against the same actions, requiring the rows an API returned to be exactly the files the model says that read observed.",
    "design_ref": "DESIGN.md 6/C02",
    "note": "Trusted: as C01. Bounded: 1-2 readers x 1-2 writers, <=2 operations each. pandas APIs not exercised (pandas absent). Pool workers of parallel scans are attributed to their reader, not individually scheduled. GC is not an actor here (C05/C06).",
    "technique": "TLA+ protocol spec with reader actors model-checked by TLC (with action-coverage anti-vacuity); trace validation of real scheduled executions of every read API",
}

CHECKS["C04"] = {
    "category": "model_checking",
    "text": "TLC explores the protocol model with a Fault action enabled at every step of append / delete / expire / delete-snapshot commits (exception before effect; effect-then-exception at the object-storage pointer write; asynchronous KeyboardInterrupt/SystemExit at every boundary), single and double faults, context-manager and explicit call styles, local / CAS / non-CAS backends, checking ReachablePresent, AckedOnce (ok => reflected once, error => not at all, ambiguous/interrupted => at most once), NoDeleteOnAmbiguous, Serializable. Binding: on the real library every scheduling point of every operation kind is failed once (OSError before effect, KeyboardInterrupt, SystemExit), alone and with a racing committer; TLC validates each trace against the same actions, so the error path the code takes (what it deletes, keeps and reports) must be the model's, and every invariant is evaluated after every event including the follow-up commit.",
    "design_ref": "DESIGN.md 6/C04",
    "note": "Trusted: as C01. Asynchronous exceptions are delivered at scheduling points only. After-effect faults on object storage are model-checked; on the real code they are exercised against the in-memory S3 (see C08). Lock-release failures are modelled as swallowed. Bounded: one victim operation + follow-up, budget <=2 faults.",
    "technique": "TLA+ protocol spec with fault actions model-checked by TLC; trace validation of real executions with a fault injected at every scheduling point",
}

NOT_YET: dict = {}


def main() -> None:
    props = [json.loads(line) for line in open(os.path.join(VERIF, "properties.jsonl"))]
    checks = []
    na = []
    for p in props:
        pid = p["id"]
        c = CHECKS.get(pid)
        if c is None:
            na.append({"property_id": pid, "reason": NOT_YET.get(pid, "check not built yet (planned in DESIGN.md section 6); not claimed until its check exists and is quiet on the unchanged tree")})
            continue
        checks.append({
            "property_id": pid,
            "quick_cmd": f"./check {pid} --tier quick",
            "thorough_cmd": f"./check {pid} --tier thorough",
            "evidence_file": f"evidence/{pid}.json",
            "replay_cmd_template": f"./check {pid} --replay {{path}}",
            "engine": "tlc+harness",
            "level_claimed": {"category": c["category"], "text": c["text"], "design_ref": c["design_ref"]},
            "level_note": c["note"],
            "technique": c["technique"],
        })
    for e in ENGINES:
        e["serves_properties"] = sorted(CHECKS)
    m = {
        "version": 1,
        "setup_cmd": "./check --setup",
        "hooks": {
            "guard": "DATASHARD_VERIF",
            "enable": "checks export DATASHARD_VERIF=1 (./check does); the library is imported from /repo/src (editable install), nothing is built",
            "baseline_off_cmd": "cd /repo && env -u DATASHARD_VERIF /venv/bin/python -m pytest -ra -q -p no:cacheprovider --timeout=900 --continue-on-collection-errors",
            "source_commits": HOOK_COMMITS,
            "add_only": True,
        },
        "engines": ENGINES,
        "checks": checks,
        "notes": "All checks: ./check <ID> --tier quick|thorough. Known findings: known_findings.json (never written at run time). Design and per-property coverage: DESIGN.md.",
        "not_applicable": na,
    }
    with open(os.path.join(VERIF, "MANIFEST.json"), "w") as f:
        json.dump(m, f, indent=1)
    subprocess.run(["python3-vt", "-c", "import json,jsonschema;jsonschema.validate(json.load(open('/verif/MANIFEST.json')),json.load(open('/root/.vp/MANIFEST.schema.json')));print('MANIFEST valid:', len(json.load(open('/verif/MANIFEST.json'))['checks']), 'checks')"], check=True)


if __name__ == "__main__":
    main()
