"""Regenerates /verif/MANIFEST.json from the table below (run: /venv/bin/python -m harness.manifest_gen).

One entry per claimed property; every property of properties.jsonl that has no entry is listed
under not_applicable with the reason given in NOT_YET / NOT_APPLICABLE.
"""
from __future__ import annotations

import json
import os
import subprocess

from .common import VERIF

HOOK_COMMITS: list = []

ENGINES = [
    {"name": "tlc", "path": "/opt/veriftools/tla/tla2tools.jar", "serves_properties": [],
     "kind_free_text": "TLC 1.8 explicit-state model checker (exhaustive + -simulate), also used as trace validator and as case enumerator/oracle for function-level specifications"},
    {"name": "harness", "path": "harness/", "serves_properties": [],
     "kind_free_text": "Python conformance harness: deterministic baton scheduler over the real library, storage/clock/lock proxies, in-memory S3, independent reader, strace-based syscall tracing; binds spec <-> code in both directions"},
]

CHECKS: dict = {
    "C13": {
        "category": "model_checking",
        "text": "TLC proves the pruning theorem PruneSound on the complete small domain of (file value multiset incl. NULL/NaN, operator, literal / literal set, two-column conjunctions); the exported decision table is then executed case by case, concretised with boundary values for every column type, against the real bound computation, the real manifest bound round trip and the real prune_files_by_bounds, and end-to-end (real tables scanned with pruning and with pruning replaced by the identity). Right level: the decision is a pure function over an order, so a small ordered domain with in-between literals covers every comparison outcome.",
        "design_ref": "DESIGN.md 6/C13",
        "note": "Trusted: TLC, pyarrow's min/max and filter kernels (their NULL/NaN behaviour is mirrored in Filter.tla and re-checked by the differential), the order-preserving concretisation in harness/values.py. Bounded: files of <= 3 rows (quick: 2), 9 literal positions, 9 column types plus long strings sharing a 16-character prefix. Cross-type literals (decimal doubles on 32-bit float columns, datetime on date columns and vice versa) are compared pruned vs. unpruned only (no reference oracle; where the unpruned engine refuses the literal there is no answer to preserve).",
        "technique": "TLA+ function spec (Filter.tla) model-checked by TLC; TLC-exported decision table replayed into the real code (differential + end-to-end pruned vs unpruned scans)",
    },
}

CHECKS["C01"] = {
    "category": "model_checking",
    "text": "TLC explores every interleaving of the L1 protocol model (DataShard.tla: one action per storage operation, lock request and stored clock read) for 2-3 committers mixing appends, deletes, expiries and snapshot deletions over separate/shared handles, strict/coarse/frozen clocks, local and CAS backends, checking Serializable (table = acknowledged history applied in pointer order), AckedOnce, LinearChain, FlipReplacesValidated. The model is bound to the code by trace validation: the same scenarios run on the real library under a deterministic scheduler (every storage call is a scheduling point; all single-pause schedules plus seeded double-pause/random ones), and TLC validates every recorded trace against the same actions, comparing the metadata/manifests the code wrote with what the model computes and evaluating every invariant after every event. Right level: the property quantifies over schedules; exhaustive interleaving of the protocol steps is what decides it.",
    "design_ref": "DESIGN.md 6/C01, 4.2, 5",
    "note": "Trusted: TLC, the baton scheduler's serialisation of actor threads (no true parallelism inside one storage call), call-stack based tagging of pointer reads, the independent reader. Bounded: <=3 committers, <=2 operations each, model retries <=2 (real executions use the library's 50), canonical ids (no 63-bit collisions).",
    "technique": "TLA+ protocol spec (DataShard.tla) model-checked by TLC; trace validation of real scheduled executions against the same spec (Trace_L1.tla)",
}

CHECKS["C02"] = {
    "category": "model_checking",
    "text": "TLC explores every interleaving of a reader's steps (pointer resolution, manifest list, manifests, data files, return) with writers performing multi-file transactions, deletes (manifest rewrites), multi-operation transactions and shared-handle commits, checking ReadIsSnapshot (what a read returns is the file set of one snapshot that was current between its start and its end) and ReadsMonotone (per handle, never backwards). Binding: the same scenarios run on the real library under the deterministic scheduler with every read API (scan, parallel scan, batch and record iteration, row_count, filtered/projected scan, checksum verification on/off); TLC validates each recorded trace against the same actions, requiring the rows an API returned to be exactly the files the model says that read observed.",
    "design_ref": "DESIGN.md 6/C02",
    "note": "Trusted: as C01. Bounded: 1-2 readers x 1-2 writers, <=2 operations each. pandas APIs not exercised (pandas absent). Pool workers of parallel scans are attributed to their reader, not individually scheduled. GC is not an actor here (C05/C06). A transient storage error is injected at every step of a read while the writer is paused at every step of its commit (RFault): the read must raise, never answer from a fallback.",
    "technique": "TLA+ protocol spec with reader actors model-checked by TLC (with action-coverage anti-vacuity); trace validation of real scheduled executions of every read API",
}

CHECKS["C04"] = {
    "category": "model_checking",
    "text": "TLC explores the protocol model with a Fault action enabled at every step of append / delete / expire / delete-snapshot commits (exception before effect; effect-then-exception at the object-storage pointer write; asynchronous KeyboardInterrupt/SystemExit at every boundary), single and double faults, context-manager and explicit call styles, local / CAS / non-CAS backends, checking ReachablePresent, AckedOnce (ok => reflected once, error => not at all, ambiguous/interrupted => at most once), NoDeleteOnAmbiguous, Serializable. Binding: on the real library every scheduling point of every operation kind is failed once (OSError before effect, KeyboardInterrupt, SystemExit; on the in-memory S3 also a botocore ClientError and the landed-but-errored metadata / pointer PUT; on the local backend a failing fsync of the temp file and of its directory inside every atomic write and the parquet publish), alone and with a racing committer; TLC validates each trace against the same actions, so the error path the code takes (what it deletes, keeps and reports) must be the model's, and every invariant is evaluated after every event including the follow-up commit.",
    "design_ref": "DESIGN.md 6/C04",
    "note": "Trusted: as C01. Asynchronous exceptions are delivered at scheduling points only. After-effect faults are placed at the metadata write and the pointer write (model and in-memory S3 binding) and at fsyncs (local); elsewhere they are equivalent to a failure of the next request. A swallowed failure of a FILE flush, or an effect-then-raise on the local backend, is rejected by the trace specification. Lock-release failures are modelled as swallowed. Bounded: one victim operation + follow-up, budget <=2 faults.",
    "technique": "TLA+ protocol spec with fault actions model-checked by TLC; trace validation of real executions with a fault injected at every scheduling point",
}

def _e(cat, text, ref, note, tech):
    return {"category": cat, "text": text, "design_ref": ref, "note": note, "technique": tech}


CHECKS["C03"] = _e("model_checking",
    "MC_FSDurable.tla models every operation type (create, append, multi-file transaction, delete, expire, delete-snapshot, collect) as its syscall-level step sequence with a Crash action enabled at every step; TLC proves AtomicPublish and CrashPreOrPost0 and exports the crash classes. On the real library a child process performs the operation and dies (os._exit) before its k-th intercepted os-level call, for every class (quick) / every k (thorough), on tables with 0..2 prior snapshots; each surviving directory is (a) projected by the independent reader and required to be exactly PRE or exactly POST (POST only if the pointer moved), (b) reopened in a fresh interpreter (uuid, snapshots, rows, follow-up append, two collections leave nothing of the dead operation and keep every retained snapshot), (c) validated as a trace (step log + crash + observed directory) by TLC against the same spec.",
    "DESIGN.md 6/C03; notes/C03.md",
    "Trusted: TLC, the call interception in the child (wraps os/tempfile/fcntl entry points), the independent reader. Process crash only (power loss is C16). A crash between publishing v0 and writing the pointer during create is counted as POST via the effective pointer (documented).",
    "TLA+ filesystem/protocol spec with Crash actions model-checked by TLC; real crashes at every intercepted call replayed and their step logs validated as traces")
CHECKS["C05"] = _e("model_checking",
    "Three spec-backed parts. NormalizePath.tla: TLC enumerates every table-location string up to length 3/4 over {/ . d a t m e x} plus named spellings and proves that listed and referenced forms of every internal file get the same comparison key and distinct files stay distinct; the exported table is compared with the real key functions on the whole domain. History.tla: all sequential histories up to a bound over appends, deletes, expiries, snapshot deletions, open/rolled-back/committed transactions, failed commits, collect(grace in {0, default, large}) and clock ticks, with GCKeepsReachable / GCRemovesOldOrphans / RetainedImmutable checked by TLC; every history is replayed on the real library under a virtual clock for each table-location spelling class (absolute, trailing slash, relative, ./x, d, data, m, metadata, data2, symlinked root) with the independent reader comparing deletions against reachable and in-flight sets after every step. DataShard.tla collector: real collection runs (incl. survivors of a partial delete after expiry, reachable only through a rewritten manifest) with an open transaction paused at many points validated as traces (only deletes the model's rule allows; every eligible orphan must go).",
    "DESIGN.md 6/C05; notes/C17.md part 2; notes/C15.md",
    "Trusted: TLC, virtual clock patches, independent reader. Spellings that need a table at the filesystem root (/data, /d) are covered at function level only. S3 prefixes share the key functions (listing semantics: C20).",
    "TLA+ specs (NormalizePath, History, DataShard collector) model-checked by TLC; TLC-generated histories replayed per location spelling; collector traces validated")
CHECKS["C06"] = _e("model_checking",
    "DataShard.tla with a collector actor (one action per storage call of collect()) racing committers; file ages are explicit (data files written before the run may be older than any grace period; files written during the run are younger - the proviso). TLC explores all interleavings with an appending, deleting, expiring committer (thorough: two committers with retry, committer faults) checking ReachablePresent in every state, OnlyOrphansDeleted, InflightPresent; the pre-repair read order (metadata before markers) must fail. Binding: the same races on the real library (back-dated data files), every single-pause schedule in both directions plus seeded double-pause/random ones, each trace validated by TLC against the same actions.",
    "DESIGN.md 6/C06",
    "Trusted: as C01. One collector at a time; proviso grace > run duration (real runs: grace 1 s virtual, data files back-dated 10 s). Open known finding: files appended through the file-level API (Table.append_data(files), built beforehand) carry no in-flight marker and can be collected between the commit's existence check and the pointer flip (model: QueuePrebuilt, must-fail companion; reproduced on the real code each run).",
    "TLA+ protocol spec with collector model-checked by TLC; trace validation of real scheduled collector/committer races")
CHECKS["C07"] = _e("model_checking",
    "DataShard.tla collector failure handling (reachable list/manifest missing, unparseable or failing; metadata unreadable; marker directory unlistable; marker unreadable / unstat-able / undeletable; listing failure; listing returning a path outside the table; candidate stat/delete failure). TLC explores one (thorough: two) fault at every collector step racing an in-flight transaction, checking AbortDeletesNothing, InflightPresent, ReachablePresent, OnlyOrphansDeleted; the pre-repair handling must fail. Binding: on the real library every storage call of a collection run is failed once and every listing made to return an escaping path once, over tables with three retained snapshots, old orphans and an in-flight transaction paused at several points, (also stalled for longer than the grace period, so that its old manifests are protected by markers alone), plus tables whose reachable list/manifest is missing, garbage or a JSON object of the wrong shape; each trace validated by TLC.",
    "DESIGN.md 6/C07",
    "Trusted: as C01. Transient and permanent storage errors are both an exception raised by the storage call.",
    "TLA+ protocol spec with collector fault actions model-checked by TLC; trace validation of real collection runs with a fault at every storage call")
CHECKS["C09"] = _e("model_checking",
    "History.tla: all sequential histories up to length 4 (quick) / 6 (thorough) over appends, deletes (manifest rewrites), expiries, snapshot deletions, collections and failed commits under a history-controlled clock incl. equal timestamps; TLC checks RetainedImmutable, ByTimestampMeansMostRecent, DeleteCurrentRepoints. Every TLC-exported history is replayed on the real library under a virtual clock; after every step the independent reader re-reads every retained snapshot (list, manifests, parquet rows, checksums) and compares with the content recorded at its commit, and lookups by id / by timestamp (at, between and around every commit time) are compared with the reference answer.",
    "DESIGN.md 6/C09; notes/C09.md",
    "Trusted: TLC, virtual clock patches, independent reader. Clock regressions are outside the property's quantifier.",
    "TLA+ history spec model-checked by TLC; TLC-generated histories replayed with per-step re-read of every retained snapshot")
CHECKS["C11"] = _e("model_checking",
    "SchemaAccept.tla: state machine of persisted schema, per-handle Arrow-schema cache, physical schema and bounds of every data file, snapshot list; TLC explores all histories of <=3 appends over 12 schema-argument variants, 10 value classes, 8 pre-built-file variants, fresh/reused handles, checking RejectedUnchanged, ScanNeverBreaks, BoundsMeanTheirColumn, AcceptedExact (pre-repair variants must fail). The exported histories are replayed on real tables with concrete schemas and boundary values; after every step outcome, full scan vs accepted rows (independent cast oracle), filtered scans on every column, and unchanged state on rejection are checked.",
    "DESIGN.md 6/C11; notes/C11.md",
    "Trusted: TLC, pyarrow as execution platform, the stdlib cast oracle (notes/C11.md). Numeric fidelity is judged by the replay's oracle; the model contributes the acceptance state machine and case enumeration.",
    "TLA+ acceptance state machine model-checked by TLC; TLC-exported histories replayed on the real library with value-class concretisation")
CHECKS["C14"] = _e("model_checking",
    "ReadPath.tla: file graph pointer -> metadata -> manifest list -> manifests -> data files with damage classes (absent, unparseable prefix, non-parsing bytes, other-kind file, JSON object, sibling swap, transient failure of the k-th read, altered-but-parsing data) and step-by-step read programs of every API/option; TLC checks that the outcome is Raise or the full answer (only when the damaged file is outside what the read needs) on every (file x class x API x verify x pruning) case incl. double damage, and exports the cases. Each is applied to a real table with many concrete realisations (truncation at every structural boundary, byte flips per region, swaps, transient faults per call) and every read API; parseability is judged by the independent reader.",
    "DESIGN.md 6/C14; notes/C14.md",
    "Open known finding: current metadata file absent with the pointer intact is served from the previous version (collides with C10's recovery rule). Truncations that leave a parseable prefix are observations, not violations.",
    "TLA+ read-path spec model-checked by TLC; TLC-exported damage cases replayed with byte-level realisations against every read API")
CHECKS["C15"] = _e("model_checking",
    "Metadata.tla (line-by-line transcriptions of repointing, expiry, retention, snapshot creation/deletion, metadata log, manifest rewrite) with the reference predicate WellFormed over a ghost commit history; MC_Repoint enumerates ALL parent functions (cycles, dangling links) of <=4/5 snapshots x all kept subsets; History.tla explores all histories up to length 6 over appends, multi-op transactions, deletes, expiries, snapshot deletions, retention and metadata-log bounds. TLC-exported tables/histories are replayed: repointing differentially on the whole enumeration, histories on the real library with metadata JSON and manifest entries projected after every step and required to equal the specification's.",
    "DESIGN.md 6/C15; notes/C15.md",
    "Trusted: TLC, virtual clock, independent reader. Table properties are set through a metadata-only commit (no public API).",
    "TLA+ metadata operators + history spec model-checked by TLC; exhaustive forest enumeration and history replay with per-step projection")
CHECKS["C16"] = _e("model_checking",
    "FSDurable.tla: volatile and durable directory views, per-inode content/flushed state, syscall-level actions, Crash and PowerLoss (unflushed content and unsynced renames vanish independently); MC_FSDurable proves PointerNeverOutruns / AtomicPublish for the publish protocol of all 7 operation types (one-step deviations - missing fsync, missing directory fsync, pointer before metadata, write in place - must fail). Binding: the REAL syscall trace (strace, nothing patched) of create, appends, multi-file transaction, delete, expire, delete-snapshot, collect and a forced OCC retry is validated by TLC against Trace_FS with a silent PowerLoss branch after every event and the reachable set of each new version (independent reader) attached to the pointer rename.",
    "DESIGN.md 6/C16; notes/C16.md",
    "Trusted: TLC, strace, the POSIX-conservative power-loss model, the independent reader. Directory fsync is assumed supported (it is on this sandbox). Ancestor-directory durability during create is reported separately.",
    "TLA+ durable-filesystem spec model-checked by TLC; trace validation of real strace syscall traces with power loss injected after every event")
CHECKS["C17"] = _e("model_checking",
    "PathRes.tla: kernel path walk over a graph of directories, files and symlinks (inside/outside/dangling/chains, root reached directly or via symlinks, sibling sharing the root's name as prefix), transcriptions of realpath, _resolve_path, _get_arrow_path, the listing walk, GC's guard and the root-write guard; TLC checks Confined / EscapeRejected / NotMisresolved over the path grammar up to depth 4 x layouts x entry points and exports the cases (code variants such as abspath or startswith containment must fail). Each case is built in a real scratch directory with sentinel trees outside the root and run through the real entry points with every touched path recorded; end-to-end runs tamper manifest entries, manifest paths, snapshot list paths, marker payloads and listings.",
    "DESIGN.md 6/C17; notes/C17.md",
    "Trusted: TLC, the recording wrappers on open/os.* in the harness process, the fingerprint of everything outside the root. Local backend (S3 keys cannot escape a prefix by construction; C20).",
    "TLA+ path-resolution spec model-checked by TLC; TLC-exported cases replayed on real directory layouts with access recording")
CHECKS["C20"] = _e("model_checking",
    "Storage.tla (reference key-value contract + transcriptions of both backends' key mapping, exists and listing rules), RangeReader.tla (seek/read/readinto/readall machine, issued ranges within [0,size)), Retry.tla (attempt counter x error class). TLC checks BackendsAgree over all operation sequences up to depth 4/5 on a key space with sibling-prefix keys, all seek/read programs, all fault sequences per request (the raw-prefix listing, off-by-one ranges, retried permanent errors must fail), and exports states/programs; every exported state is replayed on LocalStorageBackend and on S3StorageBackend over an in-memory S3 and compared per query; range programs run against S3RangeFile and a local file with the Range log checked; enumerated fault sequences are injected per request and the observed endings judged by TLC.",
    "DESIGN.md 6/C20; notes/C20.md",
    "Trusted: TLC, the in-memory S3's fidelity (strong consistency, MD5 ETags, conditional PUT semantics). exists() on a bare directory name is outside the compared contract.",
    "TLA+ storage/range/retry specs model-checked by TLC; TLC-exported sequences replayed against both real backends (in-memory S3)")
CHECKS["C08"] = _e("model_checking",
    "DataShard.tla with a CAS backend under a lock that grants everyone and under a lease lock (takeover once the lease lapsed while the old holder is paused and still believes it holds it; heartbeats; the non-atomic release as a named deviation); a pointer write delayed in flight = the writer paused immediately before the conditional PUT. TLC explores all interleavings of 2-3 committers with clock ticks at every point checking Serializable, AckedOnce, FlipReplacesValidated, LostLockNeverAcks; companions that must fail: the CAS keyed to an unvalidated second pointer read, and the grant-all lock without CAS. Binding: the real MetadataManager.commit and S3LockProvider on an in-memory S3 (content-hash ETags, conditional PUT semantics) under the baton scheduler: every single-pause schedule, a lease lapse inserted at every scheduling point, seeded multi-pause schedules with heartbeats; the trace records which pointer read the If-Match of the conditional PUT came from and TLC requires it to be the validated one.",
    "DESIGN.md 6/C08",
    "Trusted: as C01 plus the in-memory S3's fidelity (strong consistency, MD5 ETags, AWS conditional-PUT semantics). The lease lock is abstracted to holder + last-renewal time here (request-level protocol: C19).",
    "TLA+ protocol spec (CAS backend, grant-all and lease locks) model-checked by TLC; trace validation of real scheduled executions on an in-memory S3 (pauses, lease lapses, takeovers, never-landed request failures after a rival's commit)")
CHECKS["C12"] = _e("model_checking",
    "FilterSel.tla (on Filter.tla's three-valued reference semantics): transcriptions of the filter parser (every operator spelling, malformed shapes), of the compute-expression builder as a three-valued evaluator, and of every read program (scan verify on/off, parallel, scan_batches, iter_records) incl. where parsing/building happens relative to early returns; TLC proves EngineMatchesReference, ParserConforms, ApiConforms over table layouts (1-3 files, NULL, NaN, empty files, empty table) x filters (conjunctions, between, empty/NULL-containing sets, null operators, malformed classes) x projections and exports the cases; pre-repair variants (statistics pushdown in the non-verifying scan; validation after early returns) must fail. Every exported case is concretised for all column types and run through every read API and option; all must equal the reference multiset and each other; malformed filters must raise in every API.",
    "DESIGN.md 6/C12; notes/C12.md",
    "Trusted: TLC, pyarrow's compute kernels as execution platform (mirrored in the spec, re-checked by the binding). For NaN rows IEEE semantics are the reference. pandas APIs not exercised.",
    "TLA+ filter semantics + API read programs model-checked by TLC; TLC-exported cases replayed through every scan API and option")
CHECKS["C18"] = _e("model_checking",
    "DataShard.tla operation 'create' (Table.__init__ + initialize_table at storage-operation granularity: open refresh, thread lock, distributed lock, resolve under the lock, stamp, write v0, pointer write - create-if-absent on CAS backends -, unlocks) over the initial states absent / healthy / pointer lost / pointer garbage, local and CAS backends, exclusive and grant-all locks. TLC explores all interleavings of 2-3 creators each followed by a first append, checking SingleInit, NeverReinitialised, Serializable (all first appends reflected), AckedOnce, ResolveLatestCommitted; a grant-all lock without CAS must violate SingleInit. Binding: create_table() calls incl. handle construction as actors on the real library, every single-pause schedule plus seeded double-pause/random ones, each trace validated by TLC (uuid written, pointer-write precondition and outcome, identity each caller ends up on); the schema clauses are replayed directly.",
    "DESIGN.md 6/C18",
    "Trusted: as C01/C08. 'Creation interrupted' initial states = metadata written but pointer missing (plus C03's crash enumeration of create). With a lock that grants everyone a caller may transiently resolve an unpublished v0 by scanning; convergence on one table is what is required there (documented in the spec).",
    "TLA+ protocol spec with creation model-checked by TLC; trace validation of real scheduled create_table races (local + in-memory S3)")

CHECKS["C10"] = _e("model_checking",
    "DataShard.tla pointer resolution (HintedName / BestSet / CanResolve = transcription of the pointer parse, the existence check of its target and recovery by scanning: highest version, newest write time among equals), DamageHint (pointer lost / non-parsing bytes / naming a missing file incl. legacy forms / naming an older committed version) on histories that leave uncommitted metadata behind (failed and conflicting commits, local and CAS backends, a committer that dies between the metadata write and the pointer flip), followed by open/create, append and reads. TLC checks ResolveLatestCommitted, NeverReinitialised, SingleInit, Serializable, ReachablePresent; the pre-repair commit that keeps its metadata file on a clean failure must fail. Binding: on the real library a fault is injected at every scheduling point of a commit, then the pointer file is overwritten with each concrete byte string of the class grammar (empty, whitespace, non-UTF-8, BOM, NUL, upper-case hex, 7 hex digits, negative number, free text, dangling names with CRLF, legacy numbers incl. overlong, legacy names), then create_table/open, append and a scan run; every trace is validated by TLC and the independent reader's final observation must equal the model's storage.",
    "DESIGN.md 6/C10",
    "Byte grammar includes non-ASCII digits and legacy numbers below the latest version; the pointer is damaged twice (damaged, committed on, lost) and tables with more than ten versions are recovered. Two open known findings (stale well-formed pointer is trusted; a never-committed metadata file left by a dead committer - or adopted in flight under a broken lock - is surfaced once the pointer is lost) are kept as must-fail model companions and reproduced on the real code each run. Pointer damage is applied while no operation is in flight. Ambiguous (possibly committed) versions are not combined with pointer damage.",
    "TLA+ protocol spec with pointer-damage actions model-checked by TLC; trace validation of real executions with byte-level pointer damage after injected commit failures")

CHECKS["C19"] = _e("model_checking",
    "S3Lock.tla: the conditional-write S3 lock at the granularity one request / one deciding clock read / one sleep = one action (create If-None-Match, HEAD + age check + takeover PUT If-Match, renewal by a separate heartbeat actor, is_held GET with its NoSuchKey retry, release GET + DELETE), ETag as a function of the body, repairs behind flags probed on the code under test; FLock.tla: FileLock at syscall granularity on a kernel model (directory entry, inode, open descriptions, flock table keyed by inode, close/process death release). Reference rules judged on interface events only: TakeoverOnlyAfterLapse, ReleaseDeletesOnlyOwn, HolderStable, SupersededObserves, AcquireMeansOwner, TimeoutHonoured, AtMostOneBeliever; MutualExclusion, DeathReleases, NoUnlinkRace. TLC explores 2-3 clients with clock ticks everywhere (must-fail companions: unlink on release, blocking flock, O_EXCL stale break, each S3 flag alone). Binding: real S3LockProvider instances on an in-memory S3 and real FileLock instances under the baton scheduler with a virtual clock, one scheduler decision = one spec action; systematic pause/lapse/heartbeat schedules, TLC counterexamples and simulated behaviours replayed, seeded random walks; each trace validated by TLC (strict conformance, then reference rules); plus real multi-process stress logs (loop, kill, block) validated by TLC.",
    "DESIGN.md 6/C19; notes/C19.md",
    "Open known finding: the S3 release is GET-compare-then-unconditional-DELETE, a stalled release deletes the next holder's lock object. No transport faults on lock requests; one clock for clients and S3; S3PollingLockProvider not claimed; stress experiments are probabilistic (the deterministic thread binding guarantees detection).",
    "TLA+ lock specs (S3 request level, flock syscall level) model-checked by TLC (safety invariants; liveness 'every call returns' under weak fairness with must-fail companions); trace validation of real scheduled lock executions and of real multi-process logs")

NOT_YET: dict = {}


def main() -> None:
    props = [json.loads(line) for line in open(os.path.join(VERIF, "properties.jsonl"))]
    checks = []
    na = []
    for p in props:
        pid = p["id"]
        c = CHECKS.get(pid)
        if c is None:
            na.append({"property_id": pid, "reason": NOT_YET.get(pid, "check not built yet (planned in DESIGN.md section 6); not claimed until its check exists and is quiet on the unchanged tree")})
            continue
        checks.append({
            "property_id": pid,
            "quick_cmd": f"./check {pid} --tier quick",
            "thorough_cmd": f"./check {pid} --tier thorough",
            "evidence_file": f"evidence/{pid}.json",
            "replay_cmd_template": f"./check {pid} --replay {{path}}",
            "engine": "tlc+harness",
            "level_claimed": {"category": c["category"], "text": c["text"], "design_ref": c["design_ref"]},
            "level_note": c["note"],
            "technique": c["technique"],
        })
    for e in ENGINES:
        e["serves_properties"] = sorted(CHECKS)
    m = {
        "version": 1,
        "setup_cmd": "./check --setup",
        "hooks": {
            "guard": "DATASHARD_VERIF",
            "enable": "checks export DATASHARD_VERIF=1 (./check does); the library is imported from /repo/src (editable install), nothing is built",
            "baseline_off_cmd": "cd /repo && env -u DATASHARD_VERIF /venv/bin/python -m pytest -ra -q -p no:cacheprovider --timeout=900 --continue-on-collection-errors",
            "source_commits": HOOK_COMMITS,
            "add_only": True,
        },
        "engines": ENGINES,
        "checks": checks,
        "notes": "All checks: ./check <ID> --tier quick|thorough. Known findings: known_findings.json (never written at run time). Design and per-property coverage: DESIGN.md.",
        "not_applicable": na,
    }
    with open(os.path.join(VERIF, "MANIFEST.json"), "w") as f:
        json.dump(m, f, indent=1)
    subprocess.run(["python3-vt", "-c", "import json,jsonschema;jsonschema.validate(json.load(open('/verif/MANIFEST.json')),json.load(open('/root/.vp/MANIFEST.schema.json')));print('MANIFEST valid:', len(json.load(open('/verif/MANIFEST.json'))['checks']), 'checks')"], check=True)


if __name__ == "__main__":
    main()
