"""Reusable component for C05: the garbage collector's path normalisation (requirement NormalizeAgrees).

Specification: spec/NormalizePath.tla (Normalize = transcription of GarbageCollector._normalize_path over
strings as character sequences; reference requirements Agrees / Distinct / Usable; Bites = characterisation
of the failing table-location spellings; mode "repaired" = DESIGN 7.1 candidate fix) and
spec/MC_NormalizePath.tla (one TLC state per spelling: all strings up to MaxLen over {/ . d a t m e x} plus
a named list).

    run_normalize(ctx, quick)   (0) probe_mode(): which mode of the model ("asis" | "repaired") describes the real
                                    collector (decided by the real functions' behaviour on the classic bad
                                    spellings; see Adapter for the method names a repaired collector may use);
                                (a) TLC: Characterisation (the as-is function fails NormalizeAgrees exactly
                                    where the spelling bites into an internal path), RepairedAgrees,
                                    UsableUnlessBites; the companion AsIsAgrees must FAIL;
                                (b) differential: the faithful mode's tables (Normalize, or Candidate/Reach of
                                    the repaired mode) vs the real functions on the whole exported domain
                                    (mismatch = model drift note, never a violation);
                                (c) every spelling for which the REAL functions make the listed and a
                                    referenced form of a live file disagree (or two files collapse / alias)
                                    is reported as ctx.violation("gc-normalize:<class>", ...).
    failing_spellings()         the spellings of (c), computed with the real functions (no TLC).
    asis_failing_spellings()    the spellings that bite (fail without the repair): regression targets for an
                                end-to-end GC replay, also after the repair.
    spelling_class(T)           the coarse class used in the signatures.

This module does not register a property; C05's check calls it.
"""
from __future__ import annotations

import itertools
import json
import os
from typing import Any, Dict, List, Optional, Tuple

from . import tlc
from .common import Ctx, MachineryError, scratch_dir

ALPHABET = ["/", ".", "d", "a", "t", "m", "e", "x"]
NAMED = ["data", "data2", "data/", "./data", "metadata", "metadata2", "/w/t", "/w/t/", "/w/data", "w/t", "dat", "meta", "/",
         "/data", "/data/", "/metadata", "data/x", "metadata/m"]
FILE_NAMES = ["x", "y"]
INTERNAL = ([f"data/{f}" for f in FILE_NAMES] + [f"metadata/manifests/{f}" for f in FILE_NAMES]
            + [f"metadata/inflight/{f}" for f in FILE_NAMES])
REF_FORMS = ["rel", "slash", "abs"]


def _ref(T: str, p: str, form: str) -> str:
    if form == "rel":
        return p
    if form == "slash":
        return "/" + p
    return T + ("" if T.endswith("/") else "/") + p


LISTED_FN_NAMES = ["_normalize_listed_path", "_normalize_listed", "_listed_key", "_candidate_key"]
REACH_FN_NAMES = ["_reachable_keys", "_reference_keys", "_referenced_keys", "_normalize_referenced", "_normalize_reference"]


class Adapter:
    """The real functions GC uses to key a LISTED path (candidate) and a REFERENCED path (reachable keys).

    As the code is (one function on both sides) both are GarbageCollector._normalize_path.  A repaired collector may
    key the two sides differently (DESIGN 7.1: listed paths only lstripped; a reference contributes both readings):
    it is recognised when it exposes a listed-side method named one of LISTED_FN_NAMES and/or a reference-side method
    named one of REACH_FN_NAMES (returning a string or an iterable of strings); otherwise _normalize_path is used."""

    def __init__(self) -> None:
        from datashard.garbage_collector import GarbageCollector

        self.gc = GarbageCollector.__new__(GarbageCollector)
        self.listed_name = next((n for n in LISTED_FN_NAMES if hasattr(GarbageCollector, n)), "_normalize_path")
        self.reach_name = next((n for n in REACH_FN_NAMES if hasattr(GarbageCollector, n)), "_normalize_path")

    def normalize(self, T: str, path: str) -> str:
        self.gc.table_path = T
        return str(self.gc._normalize_path(path))

    def candidate(self, T: str, listed: str) -> str:
        self.gc.table_path = T
        return str(getattr(self.gc, self.listed_name)(listed))

    def reach(self, T: str, ref: str) -> frozenset:
        self.gc.table_path = T
        r = getattr(self.gc, self.reach_name)(ref)
        return frozenset([r]) if isinstance(r, str) else frozenset(str(x) for x in r)


def probe_mode(ad: Optional[Adapter] = None) -> str:
    """Which mode of NormalizePath.tla describes the code as it is: 'asis' (string-prefix strip on both sides, the
    S3 defect) or 'repaired' (listed and referenced spellings of a live file agree for the classic bad spellings)."""
    ad = ad or Adapter()
    for T in ("data", "d", "/data", "metadata", "m"):
        for p in ("data/x", "metadata/manifests/x"):
            for form in REF_FORMS:
                if ad.candidate(T, p) not in ad.reach(T, _ref(T, p, form)):
                    return "asis"
    return "repaired"


def domain(max_len: int = 4) -> List[str]:
    out = []
    for k in range(max_len + 1):
        out.extend("".join(t) for t in itertools.product(ALPHABET, repeat=k))
    seen = set(out)
    out.extend(n for n in NAMED if n not in seen)
    return out


def spelling_class(T: str) -> str:
    """Coarse class of a table-location spelling (used in violation signatures)."""
    if T == "" or set(T) == {"/"}:
        return "empty-or-slashes"
    absolute = T.startswith("/")
    core = T.lstrip("/") if absolute else T
    for name in ("data", "metadata"):
        # T is a string prefix of '<name>/' or reaches into the file name below it
        if (name + "/").startswith(core) or core.startswith(name + "/"):
            return ("absolute" if absolute else "relative") + "-prefix-of-" + name
    return "other"


def _disagreements(ad: Adapter, T: str) -> List[Dict[str, str]]:
    """Listed vs referenced forms of the same live file that GC would not match, and distinct files that collapse
    (judged on the REAL functions)."""
    bad: List[Dict[str, str]] = []
    cand = {p: ad.candidate(T, p) for p in INTERNAL}
    for p in INTERNAL:
        for form in REF_FORMS:
            ref = _ref(T, p, form)
            keys = ad.reach(T, ref)
            if cand[p] not in keys:
                bad.append({"file": p, "form": form, "referenced": ref, "normalized_referenced": "|".join(sorted(keys)), "normalized_listed": cand[p]})
            for q in INTERNAL:
                if q != p and cand[q] in keys:
                    bad.append({"file": q, "form": "aliased-by:" + form, "referenced": ref, "normalized_referenced": "|".join(sorted(keys)),
                                "normalized_listed": cand[q]})
    for p, q in itertools.combinations(INTERNAL, 2):
        if cand[p] == cand[q]:
            bad.append({"file": p, "form": "collapse", "referenced": q, "normalized_referenced": cand[q], "normalized_listed": cand[p]})
    return bad


def failing_spellings(max_len: int = 4) -> List[str]:
    """Table-location spellings for which the REAL collector keys break NormalizeAgrees (empty once repaired)."""
    ad = Adapter()
    return [T for T in domain(max_len) if _disagreements(ad, T)]


def asis_failing_spellings(max_len: int = 4) -> List[str]:
    """The spellings that bite into an internal path (fail with the un-repaired function) - the regression targets for an
    end-to-end GC replay, whether or not the collector has been repaired."""
    def bites(T: str) -> bool:
        if T == "" or set(T) == {"/"}:
            return False
        return any(p.startswith(T) or ("/" + p).startswith(T) for p in INTERNAL)
    return [T for T in domain(max_len) if bites(T)]


def run_normalize(ctx: Ctx, quick: bool) -> None:
    max_len = 3 if quick else 4
    ad = Adapter()
    mode = probe_mode(ad)                    # which model mode is the faithful one for the code as it is
    ctx.cov["normalize_mode"] = mode
    ctx.cov["normalize_real_functions"] = {"listed": ad.listed_name, "referenced": ad.reach_name}
    out = os.path.join(scratch_dir("norm"), "normalize.ndjson")
    # as-is code: the defect's exact extent (Characterisation) is the model result; repaired code: RepairedAgrees is the
    # faithful theorem.  Both are checked in either case (they are facts about the two modes of the model).
    cfg = tlc.make_cfg(spec="Spec", constants={"MaxLen": max_len},
                       invariants=["Characterisation", "RepairedAgrees", "UsableUnlessBites"], postcondition="Export")
    res = tlc.run_tlc("MC_NormalizePath", cfg, env={"VERIF_OUT": out}, timeout_s=900, workers=4,
                      label=f"MC_NormalizePath MaxLen={max_len} (Characterisation, RepairedAgrees); faithful mode = {mode}")
    ctx.add_tlc(res)
    if not res.ok:
        ctx.violation("model:NormalizePath:" + "+".join(res.violated or ["error"]),
                      f"TLC: {res.violated} violated in the normalisation model", res.error_trace[:4000])
        return
    # companion: the as-is function must FAIL NormalizeAgrees somewhere in the domain (the S3 defect is reachable)
    cfg0 = tlc.make_cfg(spec="Spec", constants={"MaxLen": 1}, invariants=["AsIsAgrees"])
    res0 = tlc.run_tlc("MC_NormalizePath", cfg0, env={"VERIF_OUT": os.devnull}, timeout_s=300, workers=1,
                       label="MC_NormalizePath AsIsAgrees (must fail)")
    ctx.add_tlc(res0)
    if "AsIsAgrees" not in res0.violated:
        raise MachineryError("anti-vacuity: the as-is normalisation model no longer violates NormalizeAgrees on any spelling")
    ctx.cov["normalize_anti_vacuity"] = "as-is mode violates NormalizeAgrees (AsIsAgrees fails); repaired mode satisfies it (RepairedAgrees holds)"

    rows = [json.loads(line) for line in open(out)]
    if len(rows) != res.distinct:
        raise MachineryError(f"exported {len(rows)} spellings but TLC checked {res.distinct} states")
    drift = 0
    compared = 0
    model_failing: List[str] = []
    real_failing: List[str] = []

    def note_drift(T: str, inp: str, model: Any, real: Any) -> None:
        nonlocal drift
        drift += 1
        if drift <= 5:
            ctx.cov.setdefault("normalize_drift_examples", []).append({"T": T, "input": inp, "model": model, "real": real})

    for row in rows:
        T = "".join(row["T"])
        # (b) differential: the faithful mode's tables against the real functions
        if mode == "asis":
            for e in row["table"]:
                inp, want = "".join(e["inp"]), "".join(e["out"])
                compared += 1
                got = ad.normalize(T, inp)
                if got != want:
                    note_drift(T, inp, want, got)
        else:
            for e in row["candR"]:
                inp, want = "".join(e["inp"]), "".join(e["out"])
                compared += 1
                got = ad.candidate(T, inp)
                if got != want:
                    note_drift(T, inp, want, got)
            for e in row["reachR"]:
                inp, want_set = "".join(e["inp"]), sorted("".join(x) for x in e["out"])
                compared += 1
                got_set = sorted(ad.reach(T, inp))
                if got_set != want_set:
                    note_drift(T, inp, want_set, got_set)
        faithful_ok = (row["agrees"] and row["distinct"]) if mode == "asis" else row["repairedAgrees"]
        if not faithful_ok:
            model_failing.append(T)
        # (c) the requirement, judged on the REAL functions
        bad = _disagreements(ad, T)
        ctx.count_case(("normalize", T), nontrivial=bool(row["bites"]) or bool(bad))
        if bad:
            real_failing.append(T)
            cls = spelling_class(T)
            b = bad[0]
            ctx.violation(f"gc-normalize:{cls}",
                          f"table location {T!r}: listed path {b['file']!r} is keyed {b['normalized_listed']!r} but its referenced form "
                          f"{b['referenced']!r} is keyed {b['normalized_referenced']!r} ({b['form']}) - garbage_collect would not recognise the live file "
                          f"({len(bad)} disagreeing (file, form) pairs for this spelling)",
                          {"table_location": T, "class": cls, "disagreements": bad[:12]})
    ctx.count_traces(compared)
    ctx.cov["normalize_spellings"] = len(rows)
    ctx.cov["normalize_table_entries_compared"] = compared
    ctx.cov["normalize_model_drift_notes"] = drift
    ctx.cov["normalize_failing_spellings_model"] = sorted(model_failing)
    ctx.cov["normalize_failing_spellings_real"] = sorted(real_failing)
    ctx.cov["normalize_asis_failing_spellings"] = sorted("".join(r["T"]) for r in rows if not (r["agrees"] and r["distinct"]))
    if sorted(model_failing) != sorted(real_failing):
        ctx.cov["normalize_failing_set_differs_from_model"] = True
    ctx.assume("NormalizeAgrees is judged on three referenced spellings of an internal file (relative, Iceberg '/x', <location>/x) and the "
               "table-relative listed spelling; location strings are bounded (all strings <= MaxLen over {/ . d a t m e x} + named list)")


def _selftest() -> None:  # pragma: no cover - manual use: python -m harness.normalize_check
    from .common import seed_from_env

    ctx = Ctx("C05", "quick", seed_from_env())
    run_normalize(ctx, True)
    print(json.dumps({k: v for k, v in ctx.cov.items() if k.startswith("normalize")}, indent=1))
    print("violations:", [v["signature"] for v in ctx.violations])
    print("failing_spellings():", failing_spellings(3))
    print("asis_failing_spellings():", asis_failing_spellings(3))


if __name__ == "__main__":  # pragma: no cover
    _selftest()
