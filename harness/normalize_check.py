"""Reusable component for C05: the garbage collector's path normalisation (requirement NormalizeAgrees).

Specification: spec/NormalizePath.tla (Normalize = transcription of GarbageCollector._normalize_path over
strings as character sequences; reference requirements Agrees / Distinct / Usable; Bites = characterisation
of the failing table-location spellings; mode "repaired" = DESIGN 7.1 candidate fix) and
spec/MC_NormalizePath.tla (one TLC state per spelling: all strings up to MaxLen over {/ . d a t m e x} plus
a named list).

    run_normalize(ctx, quick)   (a) TLC: Characterisation (NormalizeAgrees fails exactly where the spelling
                                    bites into an internal path), RepairedAgrees, UsableUnlessBites; the
                                    companion AsIsAgrees must FAIL (the defect is in the domain);
                                (b) differential: TLA+ Normalize vs the real _normalize_path on the whole
                                    exported input table (mismatch = model drift note, never a violation);
                                (c) every spelling for which the REAL function makes the listed and a
                                    referenced form of a live file disagree (or two files collapse) is
                                    reported as ctx.violation("gc-normalize:<class>", ...).
    failing_spellings()         the spellings of (c), computed with the real function (no TLC), so that an
                                end-to-end GC replay can target them.
    spelling_class(T)           the coarse class used in the signatures.

This module does not register a property; C05's check calls it.
"""
from __future__ import annotations

import itertools
import json
import os
from typing import Any, Dict, List, Optional, Tuple

from . import tlc
from .common import Ctx, MachineryError, scratch_dir

ALPHABET = ["/", ".", "d", "a", "t", "m", "e", "x"]
NAMED = ["data", "data2", "data/", "./data", "metadata", "metadata2", "/w/t", "/w/t/", "/w/data", "w/t", "dat", "meta", "/",
         "/data", "/data/", "/metadata", "data/x", "metadata/m"]
FILE_NAMES = ["x", "y"]
INTERNAL = ([f"data/{f}" for f in FILE_NAMES] + [f"metadata/manifests/{f}" for f in FILE_NAMES]
            + [f"metadata/inflight/{f}" for f in FILE_NAMES])
REF_FORMS = ["rel", "slash", "abs"]


def _ref(T: str, p: str, form: str) -> str:
    if form == "rel":
        return p
    if form == "slash":
        return "/" + p
    return T + ("" if T.endswith("/") else "/") + p


def _real_normalizer() -> Any:
    from datashard.garbage_collector import GarbageCollector

    gc = GarbageCollector.__new__(GarbageCollector)

    def norm(T: str, path: str) -> str:
        gc.table_path = T
        return str(gc._normalize_path(path))
    return norm


def domain(max_len: int = 4) -> List[str]:
    out = []
    for k in range(max_len + 1):
        out.extend("".join(t) for t in itertools.product(ALPHABET, repeat=k))
    seen = set(out)
    out.extend(n for n in NAMED if n not in seen)
    return out


def spelling_class(T: str) -> str:
    """Coarse class of a table-location spelling (used in violation signatures)."""
    if T == "" or set(T) == {"/"}:
        return "empty-or-slashes"
    absolute = T.startswith("/")
    core = T.lstrip("/") if absolute else T
    for name in ("data", "metadata"):
        # T is a string prefix of '<name>/' or reaches into the file name below it
        if (name + "/").startswith(core) or core.startswith(name + "/"):
            return ("absolute" if absolute else "relative") + "-prefix-of-" + name
    return "other"


def _disagreements(norm: Any, T: str) -> List[Dict[str, str]]:
    """Listed vs referenced forms of the same live file that normalise differently, and distinct files that collapse."""
    bad: List[Dict[str, str]] = []
    cand = {p: norm(T, p) for p in INTERNAL}
    for p in INTERNAL:
        for form in REF_FORMS:
            ref = _ref(T, p, form)
            if norm(T, ref) != cand[p]:
                bad.append({"file": p, "form": form, "referenced": ref, "normalized_referenced": norm(T, ref), "normalized_listed": cand[p]})
    for p, q in itertools.combinations(INTERNAL, 2):
        if cand[p] == cand[q]:
            bad.append({"file": p, "form": "collapse", "referenced": q, "normalized_referenced": cand[q], "normalized_listed": cand[p]})
    return bad


def failing_spellings(max_len: int = 4) -> List[str]:
    """Table-location spellings for which the REAL _normalize_path breaks NormalizeAgrees."""
    norm = _real_normalizer()
    return [T for T in domain(max_len) if _disagreements(norm, T)]


def run_normalize(ctx: Ctx, quick: bool) -> None:
    max_len = 3 if quick else 4
    out = os.path.join(scratch_dir("norm"), "normalize.ndjson")
    cfg = tlc.make_cfg(spec="Spec", constants={"MaxLen": max_len},
                       invariants=["Characterisation", "RepairedAgrees", "UsableUnlessBites"], postcondition="Export")
    res = tlc.run_tlc("MC_NormalizePath", cfg, env={"VERIF_OUT": out}, timeout_s=900, workers=4,
                      label=f"MC_NormalizePath MaxLen={max_len} (Characterisation, RepairedAgrees)")
    ctx.add_tlc(res)
    if not res.ok:
        ctx.violation("model:NormalizePath:" + "+".join(res.violated or ["error"]),
                      f"TLC: {res.violated} violated in the normalisation model", res.error_trace[:4000])
        return
    # companion: the as-is function must FAIL NormalizeAgrees somewhere in the domain (S3 is reachable)
    cfg0 = tlc.make_cfg(spec="Spec", constants={"MaxLen": 1}, invariants=["AsIsAgrees"])
    res0 = tlc.run_tlc("MC_NormalizePath", cfg0, env={"VERIF_OUT": os.devnull}, timeout_s=300, workers=1,
                       label="MC_NormalizePath AsIsAgrees (must fail)")
    ctx.add_tlc(res0)
    if "AsIsAgrees" not in res0.violated:
        raise MachineryError("anti-vacuity: the as-is normalisation model no longer violates NormalizeAgrees on any spelling")
    ctx.cov["normalize_anti_vacuity"] = "AsIsAgrees violated as expected; RepairedAgrees holds (DESIGN 7.1 candidate fix modelled)"

    rows = [json.loads(line) for line in open(out)]
    if len(rows) != res.distinct:
        raise MachineryError(f"exported {len(rows)} spellings but TLC checked {res.distinct} states")
    norm = _real_normalizer()
    drift = 0
    compared = 0
    model_failing: List[str] = []
    real_failing: List[str] = []
    for row in rows:
        T = "".join(row["T"])
        # (b) differential on the complete input table
        for e in row["table"]:
            inp, want = "".join(e["inp"]), "".join(e["out"])
            compared += 1
            if norm(T, inp) != want:
                drift += 1
                if drift <= 5:
                    ctx.cov.setdefault("normalize_drift_examples", []).append({"T": T, "input": inp, "model": want, "real": norm(T, inp)})
        if not (row["agrees"] and row["distinct"]):
            model_failing.append(T)
        # (c) the requirement, judged on the REAL function
        bad = _disagreements(norm, T)
        ctx.count_case(("normalize", T), nontrivial=bool(row["bites"]) or bool(bad))
        if bad:
            real_failing.append(T)
            cls = spelling_class(T)
            b = bad[0]
            ctx.violation(f"gc-normalize:{cls}",
                          f"table location {T!r}: listed path {b['file']!r} normalises to {b['normalized_listed']!r} but its referenced form "
                          f"{b['referenced']!r} normalises to {b['normalized_referenced']!r} - garbage_collect would not recognise the live file "
                          f"({len(bad)} disagreeing (file, form) pairs for this spelling)",
                          {"table_location": T, "class": cls, "disagreements": bad[:12]})
    ctx.count_traces(compared)
    ctx.cov["normalize_spellings"] = len(rows)
    ctx.cov["normalize_table_entries_compared"] = compared
    ctx.cov["normalize_model_drift_notes"] = drift
    ctx.cov["normalize_failing_spellings_model"] = sorted(model_failing)
    ctx.cov["normalize_failing_spellings_real"] = sorted(real_failing)
    if sorted(model_failing) != sorted(real_failing):
        ctx.cov["normalize_failing_set_differs_from_model"] = True
    ctx.assume("NormalizeAgrees is judged on three referenced spellings of an internal file (relative, Iceberg '/x', <location>/x) and the "
               "table-relative listed spelling; location strings are bounded (all strings <= MaxLen over {/ . d a t m e x} + named list)")


def _selftest() -> None:  # pragma: no cover - manual use: python -m harness.normalize_check
    from .common import seed_from_env

    ctx = Ctx("C05", "quick", seed_from_env())
    run_normalize(ctx, True)
    print(json.dumps({k: v for k, v in ctx.cov.items() if k.startswith("normalize")}, indent=1))
    print("violations:", [v["signature"] for v in ctx.violations])
    print("failing_spellings():", failing_spellings(3))


if __name__ == "__main__":  # pragma: no cover
    _selftest()
