"""L1 driver: run real-library executions of a scenario under the baton scheduler, record
spec-level traces, validate them with TLC against Trace_L1.tla (DataShard.tla's actions).

A *scenario* fixes what the TLA+ constants fix: actors (role, handle, program), backend, lock kind,
clock mode, initial table.  Many schedules of one scenario are validated in one TLC run.
"""
from __future__ import annotations

import json
import os
import shutil
import time
from dataclasses import dataclass, field
from typing import Any, Callable, Dict, List, Optional, Sequence, Tuple

from . import instrument, project, tlc
from .common import MachineryError, scratch_dir
from .instrument import Env, Fault
from .sched import Deadlock, ListPolicy, Policy, RandomPolicy, Scheduler


# abstract pointer-content class -> (class the specification sees, concrete bytes)
DAMAGE_BYTES: Dict[str, Tuple[str, Optional[bytes]]] = {
    "missing": ("missing", None),
    "empty": ("garbage", b""),
    "whitespace": ("garbage", b" \n\t\r\n"),
    "nonutf8": ("garbage", b"\xff\xfev3.metadata.json"),
    "text": ("garbage", b"latest"),
    "bom": ("garbage", b"\xef\xbb\xbfv1-0a1b2c3d.metadata.json"),
    "nul": ("garbage", b"v1-0a1b2c3d.metadata.json\x00"),
    "uppercasehex": ("garbage", b"v1-0A1B2C3D.metadata.json"),
    "sevenhex": ("garbage", b"v1-0a1b2c3.metadata.json"),
    "negative": ("garbage", b"-3"),
    "dangling": ("name", b"v77-0a1b2c3d.metadata.json"),
    "dangling_crlf": ("name", b"v77-0a1b2c3d.metadata.json\r\n"),
    "legacy_number": ("name", b"2"),
    "legacy_number_big": ("name", b"00000000000000000000000000000000000000000000000999"),
    "legacy_name": ("name", b"v2.metadata.json"),
    "legacy_zero": ("name", b"0"),                      # a LOWER version than the latest, naming a missing file
    "superscript": ("garbage", "\u00b2".encode()),       # str.isdigit() is true for it, int() rejects it
    "arabic_digit": ("name", "\u0663".encode()),         # str.isdigit() true, int() == 3: v<that char>.metadata.json, missing
}


class SkipExecution(Exception):
    """This schedule makes the scenario's program meaningless (not a verdict, not a machinery failure)."""


@dataclass
class ActorSpec:
    name: str
    role: str                  # committer | reader | collector | creator
    prog: List[Dict[str, Any]]
    handle: str = ""           # actors with the same handle share one Table object


@dataclass
class Scenario:
    name: str
    actors: List[ActorSpec]
    backend: str = "local"
    lock_kind: str = "excl"
    clock_mode: str = "strict"
    init_snaps: int = 2
    max_attempts: int = 50
    fix_stamp: bool = True
    fix_etag: bool = True
    init_table: str = "healthy"
    fix_orphan: bool = True
    fix_meta_in_try: bool = True
    fix_gc: bool = True
    fix_gcfail: bool = True
    fix_interrupt: bool = True
    grace: int = 0
    data_age_ms: int = 0       # > 0: data files are back-dated by this much when written
    orphans: int = 0           # orphan data files + orphan manifests (old) present before the run
    prebuilt: int = 0          # data files built by the user beforehand (old, unreferenced): data/prebuilt_<k>.parquet, ids 970+k
    damage: Optional[Tuple[str, str]] = None   # (kind in {"list","man"}, how in {"missing","garbage"}) applied to a reachable file

    def idx(self, a: str) -> int:
        return [x.name for x in self.actors].index(a) + 1


def schema() -> Any:
    from datashard import Schema

    return Schema(schema_id=1, fields=[{"id": 1, "name": "id", "type": "long", "required": True},
                                       {"id": 2, "name": "k", "type": "long", "required": False}])


class Execution:
    """One run of a scenario under a schedule."""

    def __init__(self, scn: Scenario, root: str) -> None:
        self.scn = scn
        self.root = root
        self.env = Env(clock_mode=scn.clock_mode, lock_kind=scn.lock_kind, backend=scn.backend)
        self.env.data_age_ms = scn.data_age_ms
        self.tables: Dict[str, Any] = {}
        self.outcomes: Dict[str, List[str]] = {}
        self.init_obs: Dict[str, Any] = {}
        self.raw_sid_of_op: Dict[Tuple[str, int], int] = {}
        self.init_sids: List[int] = []
        self.errors: Dict[str, List[str]] = {}

    # ---- setup ---------------------------------------------------------------------------------
    def setup(self) -> None:
        from datashard import create_table
        from datashard.transaction import Table

        env = self.env
        instrument.install(env)
        instrument._tls.handle = "setup"
        self.fake = None
        if self.scn.backend == "local":
            path = os.path.join(self.root, "t")
            t0 = create_table(path, schema())
            opener = lambda: Table(path, create_if_not_exists=False)  # noqa: E731
        else:
            from . import fakes3

            import contextlib

            self.fake = fakes3.FakeS3(clock=lambda: env.clock.peek_ms() / 1000.0, page_size=1000)
            cond = self.scn.backend == "s3cas"
            path = "t"
            # the S3 environment and the boto/arrow substitutions stay in place for the whole execution
            # (actors construct their own handles under the scheduler; nothing global may be held while parked)
            self._ctx = contextlib.ExitStack()
            self._ctx.enter_context(fakes3.s3_env(conditional=cond))
            self._ctx.enter_context(fakes3.patched_boto(self.fake))
            t0 = create_table("t", schema())
            opener = lambda: Table("t", create_if_not_exists=False)  # noqa: E731
            def _lock_view(me: str) -> bool:
                for k_, o in self.fake.objects.items():
                    if ".locks/" in k_:
                        owner = self.env.flocks.get(k_)
                        return owner is not None and owner != me and env.clock.peek_ms() / 1000.0 - o.mtime <= 60
                return False

            env.s3_lock_view = _lock_view
            # requests on the lock object are scheduling points of their own
            def _gate(op: str, kw: Dict[str, Any]) -> None:
                key = str(kw.get("Key", ""))
                if ".locks/" in key and env.sched.me() is not None:
                    env.sched.gate("s3lock", op=op)
                    if op == "delete_object":          # what is about to be deleted (after the pause): whose lock object?
                        o = self.fake.objects.get(key)
                        env.lock_deletes.append((env.sched.me().name, o.body.decode("utf-8", "replace") if o is not None else None))

            self.fake.gate = _gate
        for j in range(1, self.scn.init_snaps + 1):
            t0.append_records([{"id": 960 + j, "k": 0}])
        self.path = path
        self.opener = opener
        if self.scn.lock_kind == "none":
            # every handle constructed from here on (also by create_table inside an actor) gets the lock that grants everyone
            import datashard.storage_backend as sb

            for klass in (sb.LocalStorageBackend, sb.S3StorageBackend):
                instrument._patch(klass, "create_lock", lambda self_, path_, timeout=30.0: instrument.GrantAllLock(env))
        st = project.read_state(self.reader())
        self._assign_init_ids(st)
        if self.scn.backend == "local":
            self._make_orphans_and_damage(path, st)
        if self.scn.init_table == "absent":
            self._wipe_table()
            env.ids = instrument.IdMap()
        elif self.scn.init_table == "hintlost":
            self.write_hint(None)
        elif self.scn.init_table == "hintgarbage":
            self.write_hint(b"\x00\xffnot a pointer")
        # one Table object per handle, created outside the scheduled part - unless the actor's first
        # operation is "create" (then the actor constructs its own handle, under the scheduler)
        for a in self.scn.actors:
            h = a.handle or a.name
            creates = bool(a.prog) and a.prog[0]["t"] == "create"
            if h not in self.tables and not creates and self.scn.init_table != "absent":
                instrument._tls.handle = h
                self.tables[h] = opener()
                if self.scn.lock_kind == "none":
                    self.tables[h].metadata_manager.lock_provider = instrument.GrantAllLock(env)
            env.idx[a.name] = self.scn.idx(a.name)
        instrument._tls.handle = None
        self.init_obs = self.observe()
        self.init_obs["clock"] = env.clock.rel(env.clock.peek_ms())

    def _wipe_table(self) -> None:
        if self.fake is not None:
            for k_ in list(self.fake.objects):
                del self.fake.objects[k_]
        else:
            for name in os.listdir(self.path):
                full = os.path.join(self.path, name)
                shutil.rmtree(full) if os.path.isdir(full) else os.remove(full)

    def write_hint(self, content: Optional[bytes]) -> None:
        """Damage the pointer file from outside the library (None = remove it)."""
        if self.fake is not None:
            key = "t/" + project.HINT
            if content is None:
                self.fake.objects.pop(key, None)
            else:
                self.fake.seed(key, content)
        else:
            full = os.path.join(self.path, project.HINT)
            if content is None:
                if os.path.exists(full):
                    os.remove(full)
            else:
                with open(full, "wb") as f:
                    f.write(content)

    def _resolved_uuid(self) -> int:
        """Identity of the table that is resolvable right now (independent reader; 0 = none)."""
        st = project.read_state(self.reader())
        name = project.current_meta_name(st)
        if name is None and st["metas"]:
            name = max(st["metas"], key=lambda n: int(project.META_RE.match(n).group(1)))
        return self.env.ids.uid(st["metas"][name]["table_uuid"]) if name else 0

    def reader(self) -> Any:
        if self.fake is not None:
            return project.DictReader(self.fake.objects, "t")
        return project.LocalReader(self.path)

    def _make_orphans_and_damage(self, path: str, st: Dict[str, Any]) -> None:
        """Old orphan files (copies of real ones under fresh names) and optional damage to a reachable file."""
        old = (self.env.clock.peek_ms() - 10_000_000) / 1000.0
        for k in range(1, self.scn.prebuilt + 1):
            import pyarrow as pa
            import pyarrow.parquet as pq
            arrow_schema = self.tables_schema()
            dst = f"data/prebuilt_{k}.parquet"
            pq.write_table(pa.table({"id": [970 + k], "k": [0]}, schema=arrow_schema), os.path.join(path, dst))
            os.utime(os.path.join(path, dst), (old, old))
            self.env.ids.file[dst] = 970 + k
        if self.scn.orphans and st["data"] and st["manifests"]:
            for k in range(self.scn.orphans):
                for src, dst, fid in ((st["data"][0], f"data/orphan_{k}.parquet", 980 + k),
                                      (sorted(st["manifests"])[0], f"metadata/manifests/manifest_orphan_{k}.avro", 990 + k)):
                    shutil.copyfile(os.path.join(path, src), os.path.join(path, dst))
                    os.utime(os.path.join(path, dst), (old, old))
                    self.env.ids.file[dst] = fid
        if self.scn.damage:
            kind, how = self.scn.damage
            target = sorted(st["lists"])[0] if kind == "list" else sorted(st["manifests"])[0]
            full = os.path.join(path, target)
            if how == "missing":
                os.remove(full)
            elif how == "jsonobject":
                with open(full, "wb") as f:          # well-formed JSON of the wrong shape (e.g. a metadata file copied over it)
                    f.write(b'{"format_version": 2, "snapshots": []}')
            elif how == "emptyobject":
                with open(full, "wb") as f:
                    f.write(b"{}")
            else:
                with open(full, "wb") as f:
                    f.write(b"\x00garbage-not-avro-not-json")

    def tables_schema(self) -> Any:
        from datashard import Table

        t0 = Table(self.path, create_if_not_exists=False)
        return t0.file_manager.data_file_manager.create_arrow_schema(schema())

    def _assign_init_ids(self, st: Dict[str, Any]) -> None:
        ids = self.env.ids
        names = sorted(st["metas"], key=lambda n: int(project.META_RE.match(n).group(1)))
        for n in names:
            v = int(project.META_RE.match(n).group(1))
            ids.meta[n] = {"v": v, "u": 900 + v}
        last = st["metas"][names[-1]]
        for j, s in enumerate(last["snapshots"], start=1):
            ids.sid[s["snapshot_id"]] = 900 + j
            self.init_sids.append(s["snapshot_id"])
            lp = s["manifest_list"].lstrip("/")
            ids.file[lp] = 920 + j
            for mp in st["lists"][lp]:
                if mp not in ids.file:
                    ids.file[mp] = 940 + j
                    for e in st["manifests"][mp]:
                        ids.file.setdefault(e["file"], 960 + j)

    # ---- observation (independent reader -> the specification's storage variables) ---------------
    def observe(self) -> Dict[str, Any]:
        env = self.env
        rd = self.reader()
        st = project.read_state(rd)
        ids = env.ids
        metas = []
        for n, d in sorted(st["metas"].items()):
            metas.append([ids.name(n), env.abs_body(d), env.clock.rel(int(round(rd.mtime("metadata/" + n) * 1000)))])
        lists = [[ids.fid(p), [ids.fid(m) for m in ms]] for p, ms in sorted(st["lists"].items())]
        mans = []
        for p, ents in sorted(st["manifests"].items()):
            mans.append([ids.fid(p), [{"file": ids.fid(e["file"]), "status": "ADDED" if e["status"] == 1 else "EXISTING",
                                       "snap": ids.snap(e["snapshot_id"]), "seq": e["sequence_number"] or 0} for e in ents]])
        broken = [p for p in st["broken"] if p.startswith(("metadata/manifests/", "data/"))]      # exist, but cannot be parsed
        present = sorted([ids.fid(p) for p in st["lists"]] + [ids.fid(p) for p in st["manifests"]] + [ids.fid(p) for p in st["data"]] + [ids.fid(p) for p in broken])
        markers = sorted(env.marker_fid(p) for p in st["markers"])
        ftimes = [[ids.fid(p), env.clock.rel(int(round(rd.mtime(p) * 1000)))] for p in list(st["lists"]) + list(st["manifests"]) + list(st["data"]) + broken]
        h = st["hint"]
        hint = {"cls": "name" if h["cls"] in ("name", "legacy") else ("missing" if h["cls"] == "missing" else "garbage"),
                "name": ids.name(h["name"]) if h["name"] else {"v": -1, "u": 0}}
        return {"hint": hint, "metas": metas, "lists": lists, "mans": mans, "present": present, "markers": markers, "ftime": ftimes,
                "broken": sorted(st["broken"]), "temps": sorted(st["temps"])}

    # ---- actor programs --------------------------------------------------------------------------
    def _path_of(self, fid: int) -> str:
        for p, i in self.env.ids.file.items():
            if i == fid:
                return p
        # the program refers to a file an earlier operation of the same schedule never wrote (that operation was failed by an
        # injected fault): the rest of the program is meaningless, the execution is dropped
        raise SkipExecution(f"no file with id {fid}")

    def _file_ref(self, ref: Sequence[Any]) -> int:
        if ref[0] == "init":
            return 960 + int(ref[1])
        return self.scn.idx(ref[0]) * 100 + int(ref[1]) * 10 + int(ref[2])

    def _raw_sid(self, who: Sequence[Any]) -> Optional[int]:
        if who[0] == "init":
            k = int(who[1])
            return self.init_sids[k - 1] if 0 < k <= len(self.init_sids) else None
        want_lo = self.scn.idx(who[0]) * 1000 + int(who[1]) * 100
        # only a committed snapshot counts, and "committed" is the pointer flip (the spec consults sidOfOp, set there) -
        # not the caller's acknowledgement, which may still be outstanding when another actor refers to the snapshot
        flipped = [e["name"]["u"] for e in self.env.sched.trace
                   if e["k"] == "FlipHint" and e.get("ok") and e.get("a") == who[0] and want_lo <= e["name"]["u"] < want_lo + 100]
        if not flipped:
            return None
        cid_want = flipped[-1] + 1
        for raw, cid in self.env.ids.sid.items():
            if cid == cid_want:
                return raw
        return None

    def _actor_body(self, spec: ActorSpec) -> Callable[[], Any]:
        env = self.env
        hname = spec.handle or spec.name
        self.outcomes[spec.name] = []
        self.errors[spec.name] = []

        def body() -> None:
            from datashard.metadata_manager import AmbiguousCommitError, ConcurrentModificationException

            for i, op in enumerate(spec.prog, start=1):
                env.begin_op(spec.name)
                env.sched.emit({"k": "Begin", "op": op["t"]})
                res = "ok"
                extra: Dict[str, Any] = {}
                try:
                    t = op["t"]
                    table = self.tables.get(hname)
                    if t == "create":
                        instrument._tls.handle = hname
                        if self.scn.backend == "local":
                            from datashard import create_table

                            table = create_table(self.path, schema())
                        else:
                            from datashard import create_table

                            table = create_table("t", schema())
                        if self.scn.lock_kind == "none":
                            table.metadata_manager.lock_provider = instrument.GrantAllLock(env)
                        self.tables[hname] = table
                        extra["uuid"] = self._resolved_uuid()
                    elif table is None:
                        raise RuntimeError(f"no table handle: the create/open call of {spec.name} failed")
                    elif t == "append" and op.get("style") == "explicit":
                        tx = table.new_transaction().begin()
                        for k in range(1, op.get("n", 1) + 1):
                            tx.append_data([{"id": self.scn.idx(spec.name) * 100 + i * 10 + k, "k": 0}], schema())
                        tx.commit()
                    elif t == "append" and op.get("pre"):
                        from datashard.data_structures import DataFile, FileFormat

                        rel = f"data/prebuilt_{int(op['pre'])}.parquet"
                        size = os.path.getsize(os.path.join(self.path, rel)) if os.path.exists(os.path.join(self.path, rel)) else 1
                        table.append_data([DataFile(file_path="/" + rel, file_format=FileFormat.PARQUET, partition_values={},
                                                    record_count=1, file_size_in_bytes=size)])
                    elif t == "append":
                        n = op.get("n", 1)
                        if n == 1 and op.get("style", "records") == "records":
                            base = self.scn.idx(spec.name) * 100 + i * 10
                            table.append_records([{"id": base + 1, "k": 0}])
                        else:
                            with table.new_transaction() as tx:
                                for k in range(1, n + 1):
                                    tx.append_data([{"id": self.scn.idx(spec.name) * 100 + i * 10 + k, "k": 0}], schema())
                                tx.commit()
                    elif t == "delete":
                        paths = ["/" + self._path_of(self._file_ref(r)) for r in op["refs"]]
                        with table.new_transaction() as tx:
                            tx.delete_files(paths)
                            tx.commit()
                    elif t == "multi":
                        with table.new_transaction() as tx:
                            for k in range(1, op.get("n", 0) + 1):
                                tx.append_data([{"id": self.scn.idx(spec.name) * 100 + i * 10 + k, "k": 0}], schema())
                            if op.get("refs"):
                                tx.delete_files(["/" + self._path_of(self._file_ref(r)) for r in op["refs"]])
                            if op.get("cutoff") is not None:
                                tx.expire_snapshots(env.clock.base + int(op["cutoff"]))
                            tx.commit()
                    elif t == "expire":
                        with table.new_transaction() as tx:
                            tx.expire_snapshots(env.clock.base + int(op["cutoff"]))
                            tx.commit()
                    elif t == "delsnap":
                        raw = self._raw_sid(op["who"])
                        ok = table.snapshot_manager.delete_snapshot(raw if raw is not None else 1)
                        if not ok:
                            res = "false"
                    elif t == "gc":
                        env.gc_started = True
                        extra["stats"] = table.garbage_collect(grace_period_ms=int(op.get("grace", 3600000)))
                    elif t == "read":
                        api = op.get("api", "scan")
                        vc = op.get("verify")
                        if api == "count":
                            extra["count"] = table.row_count()
                            rows = []
                        elif api == "scan":
                            rows = table.scan(verify_checksums=vc)
                        elif api == "parallel":
                            rows = table.scan(parallel=2, verify_checksums=vc)
                        elif api == "batches":
                            rows = [r for b in table.scan_batches(batch_size=op.get("bs", 1), verify_checksums=vc) for r in b]
                        elif api == "records":
                            rows = list(table.iter_records(verify_checksums=vc))
                        elif api == "filter":
                            rows = table.scan(filter={"id": (">=", 0)}, columns=["id"], verify_checksums=vc)
                        else:
                            raise MachineryError(api)
                        extra["files"] = sorted({r["id"] for r in rows})
                        extra["nrows"] = len(rows)
                    else:
                        raise MachineryError(f"unknown op {t}")
                except (KeyboardInterrupt, SystemExit):
                    res = "interrupted"
                except ConcurrentModificationException:
                    res = "cme"
                except AmbiguousCommitError:
                    res = "ambiguous"
                except (MachineryError, SkipExecution):
                    raise
                except Exception as e:  # noqa: BLE001 - the operation's outcome
                    if type(e).__name__ == "GarbageCollectionAborted":
                        res = "aborted"
                    else:
                        res = "error"
                    self.errors[spec.name].append(f"{type(e).__name__}: {e}")
                if False:
                    pass
                if res == "ok":
                    self.acked_ops.add((spec.name, i))
                self.outcomes[spec.name].append(res)
                env.sched.emit(dict({"k": "Ret", "res": res}, **extra))

        return body

    def run(self, policy: Policy) -> Dict[str, Any]:
        self.acked_ops: set = set()
        s = self.env.sched
        s.env_hooks["tick"] = self._tick
        s.env_hooks["heartbeat"] = self._heartbeat
        s.env_hooks["lapse"] = self._lapse
        for a_ in self.scn.actors:
            s.env_hooks["kill_" + a_.name] = (lambda n_=a_.name: instrument.kill_actor(self.env, n_))
        for kind in DAMAGE_BYTES:
            s.env_hooks["damage_" + kind] = (lambda k_=kind: self._damage(k_))
        s.env_hooks["damage_stale"] = lambda: self._damage("stale")
        for a in self.scn.actors:
            s.spawn(a.name, self._actor_body(a), role=a.role, handle=a.handle or a.name)
        err = None
        try:
            s.run(policy)
        except Deadlock as e:
            err = f"deadlock: {e}"
        for a in s.actors.values():
            if a.error is not None and isinstance(a.error, MachineryError):
                raise a.error
            if a.error is not None and isinstance(a.error, SkipExecution):
                return {"skip": True, "init": self.init_obs, "events": [], "decisions": [], "outcomes": {}, "errors": {}, "harness_error": None}
            if a.error is not None:
                err = (err or "") + f" actor {a.name} died: {type(a.error).__name__}: {a.error}\n{getattr(a, 'tb', '')}"
        final = self.observe()
        s.emit({"k": "Observe", "a": "env", "obs": final})
        return {"init": self.init_obs, "events": s.trace, "decisions": [list(d) if isinstance(d, tuple) else d for d in s.decisions],
                "outcomes": self.outcomes, "errors": self.errors, "harness_error": err}

    def _heartbeat(self) -> None:
        """The heartbeat thread of every current holder renews once (an environment step)."""
        for lp_ in list(self.env.heartbeats):
            if lp_.is_locked:
                who = getattr(lp_, "_verif_owner", None) or self.env.flocks.get(lp_.key)
                lp_._renew_once()
                if who is not None:
                    self.env.sched.emit({"k": "Heartbeat", "a": "env", "who": who, "ok": bool(lp_.is_locked)})

    def _damage(self, kind: str) -> None:
        """Overwrite / remove the pointer file from outside the library (one concretisation of an abstract class)."""
        nm = {"v": -1, "u": 0}
        if kind == "stale":
            st = project.read_state(self.reader())
            cur = project.current_meta_name(st)
            older = sorted((n for n in st["metas"] if n != cur and n in self.env.ids.meta and self.env.ids.meta[n]["u"] in self.committed_us),
                           key=lambda n: int(project.META_RE.match(n).group(1)))
            if not older:
                return
            self.write_hint(older[-1].encode())
            cls, nm = "name", self.env.ids.name(older[-1])
        else:
            cls, content = DAMAGE_BYTES[kind]
            self.write_hint(content)
            if cls == "name":
                text = content.decode("utf-8", "replace").strip()
                fn = f"v{text}.metadata.json" if text.isdigit() else text
                nm = self.env.ids.name(fn)
        self.env.sched.emit({"k": "Damage", "a": "env", "cls": cls, "name": nm, "kind": kind})

    @property
    def committed_us(self) -> set:
        us = {e["name"]["u"] for e in self.env.sched.trace if e["k"] == "FlipHint" and e.get("ok")}
        return us | {m["u"] for m in self.env.ids.meta.values() if 900 <= m["u"] < 920}

    def _lapse(self) -> None:
        self.env.clock.advance(61_000)
        self.env.sched.emit({"k": "Tick", "a": "env", "val": self.env.clock.rel(self.env.clock.peek_ms())})

    def _tick(self) -> None:
        self.env.clock.advance(1)
        self.env.sched.emit({"k": "Tick", "a": "env", "val": self.env.clock.rel(self.env.clock.peek_ms())})

    def close(self) -> None:
        if getattr(self, "_ctx", None) is not None:
            self._ctx.close()
        instrument.uninstall()
        shutil.rmtree(self.root, ignore_errors=True)


def execute(scn: Scenario, policy: Policy) -> Dict[str, Any]:
    root = scratch_dir("l1")
    ex = Execution(scn, root)
    try:
        ex.setup()
        return ex.run(policy)
    finally:
        ex.close()


# ------------------------------------------------------------------------------------------------
# TLA+ side
# ------------------------------------------------------------------------------------------------

def _tla(v: Any) -> str:
    if isinstance(v, bool):
        return "TRUE" if v else "FALSE"
    if isinstance(v, int):
        return str(v)
    if isinstance(v, str):
        return json.dumps(v)
    if isinstance(v, (set, frozenset)):
        return "{" + ", ".join(sorted(_tla(x) for x in v)) + "}"
    if isinstance(v, (list, tuple)):
        return "<<" + ", ".join(_tla(x) for x in v) + ">>"
    if isinstance(v, dict):
        return "[" + ", ".join(f"{k} |-> {_tla(x)}" for k, x in v.items()) + "]"
    raise TypeError(v)


def _fn(d: Dict[str, Any]) -> str:
    return "(" + " @@ ".join(f"{json.dumps(k)} :> {_tla(v)}" for k, v in d.items()) + ")"


def spec_prog(scn: Scenario) -> Dict[str, List[Dict[str, Any]]]:
    """The scenario's programs in the specification's vocabulary (identifiers per DataShard.tla's scheme)."""
    out: Dict[str, List[Dict[str, Any]]] = {}
    for a in scn.actors:
        ops = []
        for i, op in enumerate(a.prog, start=1):
            t = op["t"]
            if t == "append" and op.get("pre"):
                ops.append({"t": "append", "add": [970 + int(op["pre"])], "pre": True})
            elif t == "append":
                o = {"t": "append", "add": [scn.idx(a.name) * 100 + i * 10 + k for k in range(1, op.get("n", 1) + 1)]}
                if op.get("style") == "explicit":
                    o["style"] = "explicit"
                ops.append(o)
            elif t == "delete":
                ids = set()
                for r in op["refs"]:
                    ids.add(960 + int(r[1]) if r[0] == "init" else scn.idx(r[0]) * 100 + int(r[1]) * 10 + int(r[2]))
                ops.append({"t": "delete", "del": ids})
            elif t == "expire":
                ops.append({"t": "expire", "cutoff": int(op["cutoff"])})
            elif t == "delsnap":
                ops.append({"t": "delsnap", "who": [op["who"][0], int(op["who"][1])]})
            elif t == "multi":
                ids = set()
                for r in op.get("refs", []):
                    ids.add(960 + int(r[1]) if r[0] == "init" else scn.idx(r[0]) * 100 + int(r[1]) * 10 + int(r[2]))
                ops.append({"t": "multi", "add": [scn.idx(a.name) * 100 + i * 10 + k for k in range(1, op.get("n", 0) + 1)],
                            "del": ids, "cutoff": int(op["cutoff"]) if op.get("cutoff") is not None else -1})
            elif t == "gc":
                ops.append({"t": "gc", "grace": int(op.get("grace", 3600000))})
            elif t == "create":
                ops.append({"t": "create"})
            elif t == "read":
                ops.append({"t": "read", "data": op.get("api", "scan") != "count"})
            else:
                raise MachineryError(t)
        out[a.name] = ops
    return out


def wrapper_module(scn: Scenario, name: str = "TraceScn", base: str = "Trace_L1") -> str:
    names = [a.name for a in scn.actors]
    prog = spec_prog(scn)
    lines = [f"---- MODULE {name} ----", f"EXTENDS {base}",
             "ScnActors == " + _tla(set(names)),
             "ScnRole == " + _fn({a.name: a.role for a in scn.actors}),
             "ScnIdx == " + _fn({a.name: scn.idx(a.name) for a in scn.actors}),
             "ScnHandle == " + _fn({a.name: (a.handle or a.name) for a in scn.actors}),
             "ScnProg == " + _fn({n: prog[n] for n in names}),
             "===="]
    return "\n".join(lines) + "\n"


def scn_constants(scn: Scenario) -> Dict[str, Any]:
    R = tlc.Raw
    return {"Actors": R("<- ScnActors"), "Role": R("<- ScnRole"), "Idx": R("<- ScnIdx"), "Handle": R("<- ScnHandle"),
            "Prog": R("<- ScnProg"), "Backend": scn.backend, "LockKind": scn.lock_kind, "ClockMode": scn.clock_mode,
            "MaxClock": 1000000, "MaxAttempts": scn.max_attempts, "InitSnaps": scn.init_snaps, "InitTable": scn.init_table, "FixOrphanMeta": scn.fix_orphan, "FixMetaInTry": scn.fix_meta_in_try,
            "FixStamp": scn.fix_stamp, "FixEtag": scn.fix_etag, "FixGCOrder": scn.fix_gc, "FixGCFail": scn.fix_gcfail, "FixInterrupt": scn.fix_interrupt, "FaultKinds": set(), "DamageKinds": set(), "CrashOK": False, "FaultBudget": 0, "Grace": scn.grace, "OldFiles": False, "PreFiles": {970 + k for k in range(1, scn.prebuilt + 1)}, "Lease": 60000, "MarkerTimeout": 86400000}


L1_INVARIANTS = ["TypeOK", "Serializable", "LinearChain", "AckedOnce", "NoDoubleCommit", "ReachablePresent",
                 "FlipReplacesValidated", "NoLiveDelete", "ReadIsSnapshot", "ReadsMonotone"]


@dataclass
class TraceVerdict:
    accepted: List[bool]          # consumed entirely with every invariant holding in every state
    reached: List[int]            # index of the first event that could not be consumed (len+1 = all consumed)
    violated: List[Optional[Tuple[int, str]]]   # per trace: (event position, invariant) of the first violation
    res: Any
    lengths: List[int]


def _register(stdout: str, tag: str) -> Any:
    i = stdout.find(f'"{tag}"')
    if i < 0:
        raise MachineryError(f"TLC did not print the {tag} register:\n{stdout[-2000:]}")
    j = stdout.rfind("<<", 0, i)
    vals = tlc.split_top_level(stdout[j:])
    return tlc.plain(tlc.parse_tla(vals[0]))[1]


_COV_CALLS = 0


def validate(scn: Scenario, traces: List[Dict[str, Any]], timeout_s: int = 900, keep: bool = False) -> TraceVerdict:
    """Validate a batch of traces of one scenario in one TLC run (per-trace verdicts)."""
    wd = tlc.workdir_with_specs({"TraceScn.tla": wrapper_module(scn)})
    tf = os.path.join(wd, "traces.json")
    with open(tf, "w") as f:
        json.dump({"traces": [{"init": t["init"], "events": t["events"]} for t in traces]}, f)
    cfg = tlc.make_cfg(spec="TraceSpec", constants=dict(scn_constants(scn), TableDamaged=scn.damage is not None), constraints=["Progress"],
                       postcondition="Verdicts", check_deadlock=False)
    # action coverage is collected on the first few batches of a process only (it slows TLC down noticeably): enough to
    # show in the evidence which trace-spec actions the real executions exercise
    global _COV_CALLS
    _COV_CALLS += 1
    res = tlc.run_tlc("TraceScn", cfg, wd=wd, workers=1, timeout_s=timeout_s, env={"TRACE_FILE": tf}, coverage=_COV_CALLS <= 4,
                      label=f"Trace_L1[{scn.name}] x{len(traces)}", keep_wd=keep)
    if res.violated or res.timed_out:
        raise MachineryError(f"trace validation run failed: {res.violated} timed_out={res.timed_out}\n{res.error_trace[:3000]}")
    reached = [int(x) for x in _register(res.stdout, "REACHED")]
    viol_raw = _register(res.stdout, "VIOLATED")
    violated: List[Optional[Tuple[int, str]]] = [None if int(v[0]) == 0 else (int(v[0]), str(v[1])) for v in viol_raw]
    lengths = [len(t["events"]) for t in traces]
    accepted = [reached[i] == lengths[i] + 1 and violated[i] is None for i in range(len(traces))]
    if not keep:
        shutil.rmtree(wd, ignore_errors=True)
    return TraceVerdict(accepted, reached, violated, res, lengths)


# ------------------------------------------------------------------------------------------------
# schedule exploration
# ------------------------------------------------------------------------------------------------

def solo_steps(scn: Scenario) -> Dict[str, int]:
    """Number of gates each actor passes when the actors run one after the other."""
    root = scratch_dir("l1")
    ex = Execution(scn, root)
    try:
        ex.setup()
        ex.run(ListPolicy([]))
        return {n: a.steps for n, a in ex.env.sched.actors.items()}
    finally:
        ex.close()


def single_pause_schedules(scn: Scenario, steps: Dict[str, int], stride: int = 1) -> List[List[Any]]:
    """p runs i gates and is paused there; every other actor then runs to completion (or until it
    blocks) in every order of preference; then p resumes.  Covers 'a whole commit lands while p is
    paused at point i' for every i - the stale-base / lost-update family."""
    names = [a.name for a in scn.actors]
    out: List[List[Any]] = []
    for p in names:
        others = [n for n in names if n != p]
        orders = [others] if len(others) < 2 else [others, list(reversed(others))]
        for i in range(0, steps.get(p, 0) + 1, stride):
            for order in orders:
                sched: List[Any] = [p] * i
                for q in order:
                    sched += [q] * 400
                sched += [p] * 400
                out.append(sched)
    return out


def double_pause_schedules(scn: Scenario, steps: Dict[str, int], r: Any, n: int) -> List[List[Any]]:
    """p runs i gates, q runs j gates, p runs to completion, q finishes (seeded sample of (i, j))."""
    names = [a.name for a in scn.actors]
    out = []
    for _ in range(n):
        p, q = r.sample(names, 2) if len(names) >= 2 else (names[0], names[0])
        i = r.randint(0, steps.get(p, 1))
        j = r.randint(0, steps.get(q, 1))
        rest = [x for x in names if x not in (p, q)]
        sched: List[Any] = [p] * i + [q] * j
        if rest and r.random() < 0.5:
            sched += [rest[0]] * r.randint(0, steps.get(rest[0], 1))
        sched += [p] * 400 + [q] * 400
        out.append(sched)
    return out


def fault_schedules(scn: Scenario, steps: Dict[str, int], actor: str, kinds: Sequence[Tuple[str, str]], stride: int = 1) -> List[List[Any]]:
    """One fault per execution: `actor` runs k gates, its next gate fails with (when, kind); every k."""
    out: List[List[Any]] = []
    for k in range(0, steps.get(actor, 0) + 1, stride):
        for when, kind in kinds:
            out.append([actor] * k + [["fault", actor, when, kind]] + [actor] * 400)
    return out


def _mk_policy_list(payload: List[Any]) -> ListPolicy:
    sched: List[Any] = []
    for d in payload:
        if isinstance(d, (list, tuple)) and len(d) == 4 and d[0] == "fault":
            sched.append(("fault", d[1], Fault(when=d[2], kind=d[3])))
        elif isinstance(d, (list, tuple)) and len(d) == 2 and isinstance(d[1], int) and isinstance(d[0], str) and d[0] not in ("env", "crash"):
            sched += [d[0]] * d[1]
        elif isinstance(d, (list, tuple)) and len(d) == 3 and d[0] == "until":
            sched.append(("until", d[1], d[2]))
        elif isinstance(d, list):
            sched.append(tuple(d))
        else:
            sched.append(d)
    return ListPolicy(sched)


def _worker_run(args: Tuple[Scenario, Any, Any]) -> Dict[str, Any]:
    scn, kind, payload = args
    from .common import rng as _rng

    if kind == "list":
        pol: Policy = _mk_policy_list(payload)
    else:
        seed, switch_p, env_p = payload
        pol = RandomPolicy(_rng(seed, scn.name), switch_p=switch_p, env_p=env_p)
    t = execute(scn, pol)
    t["schedule"] = {"kind": kind, "payload": _compact(payload) if kind == "list" else payload}
    return t


def _compact(sched: List[Any]) -> List[Any]:
    """Run-length encode a schedule for replay files."""
    out: List[Any] = []
    for d in sched:
        if out and isinstance(d, str) and isinstance(out[-1], list) and out[-1][0] == d:
            out[-1][1] += 1
        elif isinstance(d, str):
            out.append([d, 1])
        else:
            out.append(d)
    return out


def expand(sched: List[Any]) -> List[Any]:
    out: List[Any] = []
    for d in sched:
        if isinstance(d, list) and len(d) == 2 and isinstance(d[0], str) and isinstance(d[1], int):
            out += [d[0]] * d[1]
        else:
            out.append(tuple(d) if isinstance(d, list) else d)
    return out


_pool: Any = None


def pool(n: int = 12) -> Any:
    global _pool
    if _pool is None:
        import multiprocessing as mp

        _pool = mp.get_context("spawn").Pool(n)
    return _pool


def close_pool() -> None:
    global _pool
    if _pool is not None:
        _pool.terminate()
        _pool = None


def run_many(scn: Scenario, jobs: List[Tuple[str, Any]], parallel: bool = True) -> List[Dict[str, Any]]:
    args = [(scn, k, p) for k, p in jobs]
    if parallel and len(jobs) > 24:
        out = pool().map(_worker_run, args, chunksize=max(1, len(args) // 48))
    else:
        out = [_worker_run(a) for a in args]
    return [t for t in out if not t.get("skip")]
