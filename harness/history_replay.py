"""Replay of TLC-generated sequential histories (spec/History.tla) into the real library.

Shared by C15, C09 and (sequential GC part) C05.

    clock = VirtualClock()
    with clock:                                  # patches the library's clock reads
        obs = replay_history(ops, table_dir, clock)      # -> one observation dict per step

* `ops` use the vocabulary of History.tla exactly as TLC exports it, e.g.
  {"op":"append","n":2} {"op":"delete","sel":"first|last|absent|none"} {"op":"expire","cut":"all|old"}
  {"op":"multi","n":1,"sel":"first","cut":"all|old|none"} {"op":"delsnap","which":"oldest|second|current"}
  {"op":"retention","k":2} {"op":"mlogmax","k":1} {"op":"fail"} {"op":"open"} {"op":"rollback"} {"op":"commitopen"}
  {"op":"collect","g":0|3600000|36000000} {"op":"tick","d":1|7200000}
  Selectors are resolved against what the INDEPENDENT reader (harness/project.py) sees on storage,
  never against the library's own view and never against the specification's expectation.
* The virtual clock controls every timestamp the library stores (`datetime.now()` in
  metadata_manager / snapshot_manager / file_manager / data_structures, `time.time()` in
  garbage_collector); after every step the mtime of every file created by the step is set to the
  virtual time, so file ages are exactly what the history says.
* Every observation carries the raw projection, the abstract metadata (History.tla `View` shape),
  and the verdicts of the PROPERTY oracles evaluated in Python on the real storage
  (`obs["violations"]` = list of {"cat": "c15"|"c09"|"gc", "sig", "what"}):
    c15  WellFormed / WellFormedStep / FileOpsCorrect / ExpireStepOk  (mirror of Metadata.tla PART 2)
    c09  every retained snapshot re-read (list -> manifests -> parquet rows + sha256 of every file)
         and compared with what was recorded at its commit; lookup by id; lookup by timestamp vs the
         reference "most recently committed retained snapshot with ts <= t"; delete-current repointing
    gc   deleted files ∩ (reachable ∪ in-flight) = ∅, every reachable/in-flight file present, every
         unreferenced unprotected data/manifest file OLDER than grace is gone
* `compare_expected(observations, expected_steps)` compares the abstract metadata with the
  specification's expectation (ids canonicalised by order of first appearance) and returns the
  list of differences (model drift unless a property oracle also fails).

For C05 (coordinator): `gc_history_cases(tier_or_len, sample=..., seed=...)` runs MC_HistoryCases with
Mode="gc" (alphabet: append, delete, expire, delsnap, open / rollback / commitopen (an open transaction
= begin + append_data, uncommitted), fail, collect(g) for g in {0, default, large}, tick(1 ms | 2 h))
and returns [{"ops": [...], "steps": [...expected...]}, ...]; replay each with `replay_history` for
every table-location spelling (pass the spelled location as `table_dir` and, if the spelling is not a
plain path, the real directory as `root`); the GC oracle above is in obs["violations"] with cat "gc".
"""
from __future__ import annotations

import copy
import datetime as _dt
import hashlib
import json
import os
import random
import shutil
from typing import Any, Dict, Iterable, List, Optional, Set, Tuple

import logging

from . import project
from .common import MachineryError, rng, scratch_dir

BASE_MS = 1_700_000_000_000
RETENTION_PROP = "datashard.snapshot.retention-count"
MLOGMAX_PROP = "write.metadata.previous-versions-max"
DEFAULT_MLOG_MAX = 100
GRACE_DEFAULT = 3600000
GRACE_LARGE = 36000000
TICK_BIG = 7200000
INFLIGHT_TIMEOUT = 86400000
T0 = 100                     # History.tla T0: abstract time at which the table is created


# ------------------------------------------------------------------------------------------------
# virtual clock
# ------------------------------------------------------------------------------------------------
class VirtualClock:
    """Logical clock in ms (abstract time t; the library sees base_ms + t)."""

    _PATCH_DT = ("datashard.metadata_manager", "datashard.snapshot_manager", "datashard.file_manager",
                 "datashard.data_structures")

    def __init__(self, base_ms: int = BASE_MS) -> None:
        self.base_ms = base_ms
        self.t = T0
        self._saved: List[Tuple[Any, str, Any]] = []

    @property
    def now_ms(self) -> int:
        return self.base_ms + self.t

    def reset(self) -> None:
        self.t = T0

    def tick(self, d: int) -> None:
        self.t += d

    def install(self) -> "VirtualClock":
        import importlib

        logging.disable(logging.WARNING)      # the library logs every collection at INFO

        clock = self

        class VDateTime(_dt.datetime):
            @classmethod
            def now(cls, tz: Any = None) -> "VDateTime":  # type: ignore[override]
                # +0.5 ms: int(now().timestamp() * 1000) is exactly now_ms whatever the float rounding
                return cls.fromtimestamp((clock.now_ms + 0.5) / 1000.0, tz)

        class VTime:
            @staticmethod
            def time() -> float:
                # -0.25 ms: `mtime_ms < now_ms - grace` (garbage_collector.py:299) then behaves exactly like
                # the integer comparison of History.tla at the boundary age == grace, whatever the
                # float rounding of st_mtime
                return (clock.now_ms - 0.25) / 1000.0

            @staticmethod
            def sleep(s: float) -> None:
                return None

        for name in self._PATCH_DT:
            mod = importlib.import_module(name)
            if hasattr(mod, "datetime"):
                self._saved.append((mod, "datetime", mod.datetime))
                mod.datetime = VDateTime  # type: ignore[attr-defined]
        gcmod = importlib.import_module("datashard.garbage_collector")
        self._saved.append((gcmod, "time", gcmod.time))
        gcmod.time = VTime  # type: ignore[attr-defined]
        for probe in (0, 1, 999, 7200001):
            self.t = probe
            if int(VDateTime.now().timestamp() * 1000) != self.now_ms:
                self.uninstall()
                raise MachineryError("virtual clock does not round-trip through datetime.now().timestamp()")
        self.t = T0
        return self

    def uninstall(self) -> None:
        logging.disable(logging.NOTSET)
        for mod, attr, val in reversed(self._saved):
            setattr(mod, attr, val)
        self._saved = []

    def __enter__(self) -> "VirtualClock":
        return self.install()

    def __exit__(self, *a: Any) -> None:
        self.uninstall()


# ------------------------------------------------------------------------------------------------
# projection of storage to the abstract metadata of Metadata.tla / History.tla `View`
# ------------------------------------------------------------------------------------------------
def _strip(p: str) -> str:
    return p.lstrip("/")


def _sid(v: Any) -> int:
    return 0 if v is None or v == -1 else v


def _int_prop(props: Dict[str, Any], key: str) -> int:
    raw = props.get(key)
    if raw is None:
        return 0
    try:
        return int(raw)
    except (TypeError, ValueError):
        return 0


def abstract_meta(st: Dict[str, Any], name: str, base_ms: int) -> Dict[str, Any]:
    meta = st["metas"][name]
    snaps = []
    for s in meta["snapshots"]:
        lp = _strip(s["manifest_list"])
        mans: Optional[List[Dict[str, Any]]] = None
        if lp in st["lists"]:
            mans = []
            for mp in st["lists"][lp]:
                ents = st["manifests"].get(mp)
                mans.append({"id": mp, "entries": None if ents is None else [
                    {"file": e["file"], "status": {1: "ADDED", 0: "EXISTING"}.get(e["status"], str(e["status"])),
                     "snap": e["snapshot_id"], "seq": e["sequence_number"], "fseq": e["file_sequence_number"]}
                    for e in ents]})
        snaps.append({"id": s["snapshot_id"], "parent": _sid(s.get("parent_snapshot_id")), "seq": s.get("sequence_number"),
                      "ts": s["timestamp_ms"] - base_ms, "list": lp, "mans": mans})
    props = meta.get("properties") or {}
    return {
        "metaName": name, "uuid": meta["table_uuid"],
        "lastUpd": meta["last_updated_ms"] - base_ms, "lastSeq": meta["last_sequence_number"],
        "cur": _sid(meta.get("current_snapshot_id")), "snaps": snaps,
        "slog": [e["snapshot_id"] for e in meta["snapshot_log"]],
        "slog_ts": [e["timestamp_ms"] - base_ms for e in meta["snapshot_log"]],
        "mlog": [os.path.basename(e["metadata-file"]) for e in meta["metadata_log"]],
        "retention": _int_prop(props, RETENTION_PROP), "mlogMax": _int_prop(props, MLOGMAX_PROP),
    }


def _live_files(am: Dict[str, Any]) -> List[str]:
    """Data files of the current snapshot in manifest/entry order (independent reader)."""
    for s in am["snaps"]:
        if s["id"] == am["cur"] and am["cur"] != 0:
            return [e["file"] for m in (s["mans"] or []) for e in (m["entries"] or [])]
    return []


def _listing(st: Dict[str, Any]) -> Dict[str, List[str]]:
    return {
        "d": sorted(st["data"]),
        "m": sorted(st["manifests"].keys() | {k for k in st["broken"] if "/manifest_" in k and "manifest_list_" not in k}),
        "l": sorted(st["lists"].keys() | {k for k in st["broken"] if "manifest_list_" in k}),
        "markers": sorted(st["markers"].keys()),
        "metas": sorted(st["metas"].keys()),
        "temps": sorted(st["temps"]),
    }


# ------------------------------------------------------------------------------------------------
# reference predicates (Python mirror of Metadata.tla PART 2) on the REAL observation
# ------------------------------------------------------------------------------------------------
class Ghost:
    """What the code does not keep: full commit history + frozen content of every snapshot."""

    def __init__(self) -> None:
        self.commits: List[Dict[str, Any]] = []      # {id, parent(=previous current), seq, ts, list}
        self.versions: List[str] = []                # superseded metadata file names
        self.frozen: Dict[int, Dict[str, Any]] = {}  # sid -> content recorded at commit
        self.max_last_seq = 0

    def idx(self, sid: int) -> Optional[int]:
        for i, c in enumerate(self.commits):
            if c["id"] == sid:
                return i
        return None

    def true_ancestors(self, sid: int) -> Set[int]:
        out: Set[int] = set()
        i = self.idx(sid)
        p = self.commits[i]["parent"] if i is not None else 0
        fuel = len(self.commits)
        while p != 0 and fuel > 0:
            out.add(p)
            j = self.idx(p)
            p = self.commits[j]["parent"] if j is not None else 0
            fuel -= 1
        return out

    def latest(self, ids: Iterable[int]) -> int:
        best, bi = 0, -1
        for s in ids:
            i = self.idx(s)
            if i is not None and i > bi:
                best, bi = s, i
        return best


def wellformed(am: Dict[str, Any], ghost: Ghost, metas_present: Iterable[str]) -> List[Tuple[str, str]]:
    """C15 state predicate.  Returns [(clause, detail)] of the clauses that FAIL."""
    bad: List[Tuple[str, str]] = []
    ids = [s["id"] for s in am["snaps"]]
    idset = set(ids)
    if not ((am["cur"] != 0 and am["cur"] in idset) or (am["cur"] == 0 and not ids)):
        bad.append(("current-not-retained", f"current={am['cur']} retained={ids}"))
    if len(idset) != len(ids):
        bad.append(("duplicate-snapshot-ids", str(ids)))
    for s in am["snaps"]:
        if ghost.idx(s["id"]) is None:
            bad.append(("uncommitted-snapshot", str(s["id"])))
            continue
        if s["parent"] != 0 and not (s["parent"] in idset and s["parent"] in ghost.true_ancestors(s["id"])):
            kind = "dangling-parent" if s["parent"] not in idset else "parent-not-true-ancestor"
            bad.append((kind, f"snapshot {s['id']} parent {s['parent']} retained={ids} true ancestors={sorted(ghost.true_ancestors(s['id']))}"))
        if s["seq"] is None or s["seq"] > am["lastSeq"]:
            bad.append(("seq-exceeds-last", f"snapshot {s['id']} seq {s['seq']} last {am['lastSeq']}"))
    known = [s for s in am["snaps"] if ghost.idx(s["id"]) is not None and s["seq"] is not None]
    for a in known:
        for b in known:
            if ghost.idx(a["id"]) < ghost.idx(b["id"]) and not a["seq"] < b["seq"]:  # type: ignore[operator]
                bad.append(("seq-not-increasing", f"{a['id']} (seq {a['seq']}) committed before {b['id']} (seq {b['seq']})"))
    for e in am["slog"]:
        if e not in idset:
            bad.append(("snapshot-log-names-unretained", f"log entry {e} retained={ids}"))
    pos = [ghost.idx(e) for e in am["slog"] if ghost.idx(e) is not None]
    if any(not pos[i] < pos[i + 1] for i in range(len(pos) - 1)):  # type: ignore[operator]
        bad.append(("snapshot-log-order", str(am["slog"])))
    present = set(metas_present)
    for n in am["mlog"]:
        if n not in ghost.versions:
            bad.append(("metadata-log-names-unsuperseded", n))
        if n not in present:
            bad.append(("metadata-log-names-missing-file", n))
    bound = am["mlogMax"] if am["mlogMax"] != 0 else DEFAULT_MLOG_MAX
    if bound >= 1 and len(am["mlog"]) > bound:
        bad.append(("metadata-log-exceeds-bound", f"{len(am['mlog'])} > {bound}"))
    return bad


def _entries(mans: Optional[List[Dict[str, Any]]]) -> List[Dict[str, Any]]:
    return [e for m in (mans or []) for e in (m["entries"] or [])]


def fileops_correct(base_mans: Optional[List[Dict[str, Any]]], new_mans: Optional[List[Dict[str, Any]]],
                    appended: Set[str], named: Set[str], sid: int, seq: Optional[int]) -> List[Tuple[str, str]]:
    """C15: carried files keep snapshot id / sequence number, a delete removes exactly the named files."""
    bad: List[Tuple[str, str]] = []
    be, ne = _entries(base_mans), _entries(new_mans)
    bfiles, nfiles = {e["file"] for e in be}, {e["file"] for e in ne}
    want = (bfiles - named) | appended
    if nfiles != want:
        bad.append(("delete-not-exact", f"files after {sorted(nfiles)} expected {sorted(want)} (base {sorted(bfiles)} named {sorted(named)} appended {sorted(appended)})"))
    for e in ne:
        if e["file"] in appended and e["file"] not in bfiles:
            if not (e["snap"] == sid and e["seq"] == seq and e["status"] == "ADDED" and e["fseq"] == seq):
                bad.append(("added-entry-misstamped", f"{e} for snapshot {sid} seq {seq}"))
        elif not any(b["file"] == e["file"] and b["snap"] == e["snap"] and b["seq"] == e["seq"] and b["fseq"] == e["fseq"] for b in be):
            bad.append(("carried-entry-restamped", f"{e} (base had {[b for b in be if b['file'] == e['file']]})"))
    return bad


# ------------------------------------------------------------------------------------------------
# the replayer
# ------------------------------------------------------------------------------------------------
def _rows_for(k: int) -> List[Dict[str, Any]]:
    return [{"id": k * 100 + j, "v": f"file{k}"} for j in range(2)]


def _rowkey(rows: List[Dict[str, Any]]) -> List[Tuple[Any, Any]]:
    return sorted((r["id"], r["v"]) for r in rows)


class Replayer:
    def __init__(self, table_dir: str, clock: VirtualClock, root: Optional[str] = None, seed: int = 0) -> None:
        from datashard import Schema, create_table

        self.clock = clock
        self.table_dir = table_dir
        schema = Schema(schema_id=1, fields=[
            {"id": 1, "name": "id", "type": "long", "required": True},
            {"id": 2, "name": "v", "type": "string", "required": False}])
        self.table = create_table(table_dir, schema)
        self.root = os.path.realpath(root or table_dir)
        self.reader = project.LocalReader(self.root)
        self.ghost = Ghost()
        self.nfile = 0
        self.open: List[Dict[str, Any]] = []      # {"tx": Transaction, "files": [rel paths]}
        self.rnd = rng(seed, "replayer", table_dir)
        self.step_no = 0
        self.known_files: Set[str] = set()
        self._stamp_new_files()
        self.st = project.read_state(self.reader)
        self.name = project.current_meta_name(self.st)
        if self.name is None:
            raise MachineryError("fresh table has no resolvable current metadata")
        self.am = abstract_meta(self.st, self.name, clock.base_ms)

    # ---- helpers ----
    def _stamp_new_files(self) -> List[str]:
        now_ns = self.clock.now_ms * 1_000_000
        files = set(self.reader.list())
        new = sorted(files - self.known_files)
        for rel in new:
            try:
                os.utime(os.path.join(self.root, rel), ns=(now_ns, now_ns))
            except FileNotFoundError:
                pass
        self.known_files = files
        return new

    def _spell(self, rel: str) -> str:
        # both spellings of a manifest path are "the named file" (transaction.py:523-527)
        return rel if (self.step_no % 2 == 0) else "/" + rel

    def _sel_files(self, sel: str) -> List[str]:
        live = _live_files(self.am)
        if sel == "none":
            return []
        if sel == "first":
            return [live[0]] if live else []
        if sel == "last":
            return [live[-1]] if live else []
        if sel == "absent":
            return ["data/never_existed.parquet"]
        raise MachineryError(f"unknown selector {sel}")

    def _sel_cutoff(self, cut: str) -> Optional[int]:
        if cut == "none":
            return None
        if cut == "all":
            return self.clock.now_ms + 1
        if cut == "old":
            return self.clock.now_ms
        raise MachineryError(f"unknown cutoff {cut}")

    def _sel_snap(self, which: str) -> int:
        s = self.am["snaps"]
        if which == "oldest":
            return s[0]["id"] if len(s) >= 1 else 0
        if which == "second":
            return s[1]["id"] if len(s) >= 2 else 0
        if which == "current":
            return self.am["cur"]
        raise MachineryError(f"unknown snapshot selector {which}")

    def _set_prop(self, key: str, value: str) -> None:
        mm = self.table.metadata_manager
        base = mm.refresh()
        new = copy.deepcopy(base)
        new.properties[key] = value
        mm.commit(base, new)

    def _tx(self, n: int, named: List[str], cutoff: Optional[int], use_named: bool, files_out: List[int]) -> None:
        with self.table.new_transaction() as tx:
            for _ in range(n):
                self.nfile += 1
                files_out.append(self.nfile)
                tx.append_data(records=_rows_for(self.nfile))
            if use_named:
                tx.delete_files([self._spell(p) for p in named])
            if cutoff is not None:
                tx.expire_snapshots(cutoff)
            tx.commit()

    # ---- one step ----
    def step(self, op: Dict[str, Any]) -> Dict[str, Any]:
        from datashard.garbage_collector import GarbageCollectionAborted

        self.step_no += 1
        prev_am, prev_st, prev_name = self.am, self.st, self.name
        before = _listing(prev_st)
        kind = op["op"]
        res = "ok"
        named: List[str] = []
        appended_nums: List[int] = []
        cutoff: Optional[int] = None
        del_sid = 0
        inflight_before = {f for o in self.open for f in o["files"]}
        gc_stats: Optional[Dict[str, int]] = None
        err: Optional[str] = None
        committed_open_files: List[str] = []
        try:
            if kind == "append":
                self._tx(op["n"], [], None, False, appended_nums)
            elif kind == "delete":
                named = self._sel_files(op["sel"])
                self._tx(0, named, None, True, appended_nums)
            elif kind == "expire":
                cutoff = self._sel_cutoff(op["cut"])
                self._tx(0, [], cutoff, False, appended_nums)
            elif kind == "multi":
                named = self._sel_files(op["sel"])
                cutoff = self._sel_cutoff(op["cut"])
                self._tx(op["n"], named, cutoff, op["sel"] != "none", appended_nums)
            elif kind == "delsnap":
                del_sid = self._sel_snap(op["which"])
                target = del_sid if del_sid != 0 else self.rnd.getrandbits(62) + 1
                ok = self.table.snapshot_manager.delete_snapshot(target)
                res = "ok" if ok else "noop"
            elif kind == "retention":
                self._set_prop(RETENTION_PROP, str(op["k"]))
            elif kind == "mlogmax":
                self._set_prop(MLOGMAX_PROP, str(op["k"]))
            elif kind == "fail":
                storage = self.table.metadata_manager.storage
                hint = self.table.metadata_manager.HINT_PATH
                orig = storage.write_file

                def failing(path: str, content: bytes, *a: Any, **k: Any) -> Any:
                    if path == hint:
                        raise OSError("injected: pointer write failed")
                    return orig(path, content, *a, **k)

                storage.write_file = failing  # type: ignore[method-assign]
                try:
                    self.nfile += 1
                    try:
                        self.table.append_records(_rows_for(self.nfile))
                        raise MachineryError("fault injection did not make the commit fail")
                    except OSError as e:
                        if "injected" not in str(e):
                            raise
                        res = "failed"
                finally:
                    del storage.write_file
            elif kind == "open":
                tx = self.table.new_transaction().begin()
                self.nfile += 1
                tx.append_data(records=_rows_for(self.nfile))
                self.open.append({"tx": tx, "files": [], "num": self.nfile})
            elif kind == "rollback":
                if self.open:
                    self.open.pop(0)["tx"].rollback()
                else:
                    res = "noop"
            elif kind == "commitopen":
                if self.open:
                    o = self.open.pop(0)
                    appended_nums.append(o["num"])
                    committed_open_files = list(o["files"])
                    o["tx"].commit()
                else:
                    res = "noop"
            elif kind == "collect":
                try:
                    gc_stats = self.table.garbage_collect(grace_period_ms=op["g"])
                except GarbageCollectionAborted as e:
                    res = "aborted"
                    err = str(e)
            elif kind == "tick":
                self.clock.tick(op["d"])
            else:
                raise MachineryError(f"unknown op {op}")
        except MachineryError:
            raise
        except Exception as e:  # noqa: BLE001 - an unexpected library error is an observation
            res = "error"
            err = f"{type(e).__name__}: {e}"

        created = self._stamp_new_files()
        if kind == "open" and res == "ok":
            self.open[-1]["files"] = [f for f in created if f.startswith("data/")]
        self.st = project.read_state(self.reader)
        name = project.current_meta_name(self.st)
        if name is None:
            raise MachineryError(f"after {op}: version hint {self.st['hint']} does not resolve")
        self.name = name
        self.am = abstract_meta(self.st, name, self.clock.base_ms)
        after = _listing(self.st)
        deleted = {k: sorted(set(before[k]) - set(after[k])) for k in ("d", "m", "l", "markers")}
        obs: Dict[str, Any] = {
            "step": self.step_no, "op": op, "res": res, "error": err, "clock": self.clock.t,
            "abs": self.am, "files": after, "created": created, "deleted": deleted, "gc_stats": gc_stats,
            "open": len(self.open), "violations": [],
        }
        V = obs["violations"]

        def viol(cat: str, sig: str, what: str) -> None:
            V.append({"cat": cat, "sig": sig, "what": what})

        if res == "error":
            viol("c15", f"op-raised:{kind}", f"{op} raised {err}")

        # ---- ghost bookkeeping ----
        committed = name != prev_name
        if committed:
            self.ghost.versions.append(prev_name)
        prev_ids = {s["id"] for s in prev_am["snaps"]}
        new_snaps = [s for s in self.am["snaps"] if self.ghost.idx(s["id"]) is None]
        if len(new_snaps) > 1:
            viol("c15", "several-new-snapshots", f"{op} produced {len(new_snaps)} new snapshots")
        for s in new_snaps:
            self.ghost.commits.append({"id": s["id"], "parent": prev_am["cur"], "seq": s["seq"], "ts": s["ts"], "list": s["list"]})
            self.ghost.frozen[s["id"]] = self._freeze(s)

        # ---- C15 ----
        for clause, detail in wellformed(self.am, self.ghost, self.st["metas"].keys()):
            viol("c15", f"wellformed:{clause}:{kind}", f"after {op}: {clause}: {detail}")
        if self.am["lastSeq"] < prev_am["lastSeq"]:
            viol("c15", f"last-seq-decreased:{kind}", f"{prev_am['lastSeq']} -> {self.am['lastSeq']}")
        if any(a != b for a, b in zip(self.am["slog_ts"], [self._ts_of(e) for e in self.am["slog"]])):
            pass  # log timestamps are not part of the property
        if new_snaps and kind in ("append", "delete", "multi", "commitopen"):
            s = new_snaps[0]
            base_mans = next((x["mans"] for x in prev_am["snaps"] if x["id"] == prev_am["cur"]), []) if prev_am["cur"] != 0 else []
            appended = {f for f in created if f.startswith("data/")} if kind != "commitopen" else set(committed_open_files)
            for clause, detail in fileops_correct(base_mans, s["mans"], appended, {_strip(p) for p in named}, s["id"], s["seq"]):
                viol("c15", f"fileops:{clause}:{kind}", f"after {op}: {detail}")
        if cutoff is not None and res == "ok":
            c = cutoff - self.clock.base_ms
            ids = {s["id"] for s in self.am["snaps"]}
            if not new_snaps and self.am["cur"] != prev_am["cur"]:
                viol("c15", "expire-moved-current", f"{prev_am['cur']} -> {self.am['cur']}")
            if self.am["cur"] != 0 and self.am["cur"] not in ids:
                viol("c15", "expire-removed-current", f"current {self.am['cur']} not in {sorted(ids)}")
            if not new_snaps or self.am["retention"] < 1:
                for s in prev_am["snaps"]:
                    if s["ts"] >= c and s["id"] not in ids:
                        viol("c15", "expire-removed-young", f"snapshot {s['id']} ts {s['ts']} >= cutoff {c} was removed")

        # ---- C09 ----
        for s in self.am["snaps"]:
            fr = self.ghost.frozen.get(s["id"])
            if fr is None:
                continue
            for detail in self._compare_frozen(s, fr):
                viol("c09", f"retained-changed:{detail[0]}:{kind}", f"after {op}: snapshot {s['id']}: {detail[1]}")
        obs["time_travel"] = self._time_travel(viol, kind)
        if kind == "delsnap" and res == "ok" and del_sid != 0 and prev_am["cur"] == del_sid:
            want = self.ghost.latest(prev_ids - {del_sid})
            if self.am["cur"] != want:
                viol("c09", "delete-current-repoint", f"deleting current {del_sid}: table now at {self.am['cur']}, most recently committed survivor is {want}")
        # the library's own read of the current snapshot
        try:
            got = _rowkey(self.table.scan())
        except Exception as e:  # noqa: BLE001
            got = None
            viol("c09", f"current-unreadable:{kind}", f"after {op}: scan raised {type(e).__name__}: {e}")
        if got is not None:
            fr = self.ghost.frozen.get(self.am["cur"])
            want_rows = fr["rows"] if fr else []
            if got != want_rows:
                viol("c09", f"current-content:{kind}", f"after {op}: scan returns {got}, committed content {want_rows}")

        # ---- GC (sequential C05 part) ----
        reach = project.reachable(self.st, self.st["metas"][name])
        must_keep = set(reach["lists"]) | set(reach["manifests"]) | set(reach["data"]) | {f for o in self.open for f in o["files"]}
        missing = sorted(f for f in must_keep if not self.reader.exists(f))
        if kind == "collect":
            gone = set(deleted["d"]) | set(deleted["m"]) | set(deleted["l"])
            keep_before = must_keep | inflight_before
            hit = sorted(gone & keep_before)
            if hit:
                viol("gc", "gc-deleted-live", f"collect(grace={op['g']}) deleted reachable/in-flight files {hit}")
            if res in ("ok", "aborted") and not missing:
                # liveness half: with every reachable file present there is no reason to abort, and every
                # unreferenced unprotected file OLDER than grace must be gone (age == grace: either way)
                for k in ("d", "m", "l"):
                    for f in after[k]:
                        if f in must_keep:
                            continue
                        try:
                            age = self.clock.now_ms - int(round(self.reader.mtime(f) * 1000))
                        except OSError:
                            continue
                        if age > op["g"]:
                            why = "left" if res == "ok" else f"aborted ({err}) and left"
                            viol("gc", f"gc-orphan-survives:{k}" + (":aborted" if res == "aborted" else ""),
                                 f"collect(grace={op['g']}) {why} unreferenced {f} of age {age} ms")
            obs["gc"] = {"deleted": {k: len(deleted[k]) for k in ("d", "m", "l")}, "aborted": res == "aborted"}
        if missing:
            viol("gc" if kind == "collect" else "c09", f"reachable-missing:{kind}", f"after {op}: reachable/in-flight files missing: {missing}")
        return obs

    def _ts_of(self, sid: int) -> Optional[int]:
        i = self.ghost.idx(sid)
        return None if i is None else self.ghost.commits[i]["ts"]

    def _sha(self, rel: str) -> Optional[str]:
        try:
            return project.sha256(self.reader, rel)
        except OSError:
            return None

    def _freeze(self, s: Dict[str, Any]) -> Dict[str, Any]:
        files = [e["file"] for e in _entries(s["mans"])]
        rows: List[Dict[str, Any]] = []
        for f in dict.fromkeys(files):
            try:
                rows.extend(project.read_rows(self.reader, f))
            except Exception:  # noqa: BLE001 - committed over a file that is already gone (e.g. deleted by an
                pass           # earlier collection): reported by the reachable-missing / retained-changed oracles
        return {
            "snap": {k: s[k] for k in ("id", "seq", "ts", "list")},
            "list_sha": self._sha(s["list"]),
            "mans": [(m["id"], self._sha(m["id"]), m["entries"]) for m in (s["mans"] or [])],
            "files": [(f, self._sha(f)) for f in dict.fromkeys(files)],
            "rows": _rowkey(rows),
        }

    def _compare_frozen(self, s: Dict[str, Any], fr: Dict[str, Any]) -> List[Tuple[str, str]]:
        out: List[Tuple[str, str]] = []
        for k in ("seq", "ts", "list"):
            if s[k] != fr["snap"][k]:
                out.append(("record", f"{k} was {fr['snap'][k]} now {s[k]}"))
        if s["mans"] is None:
            return out + [("list-unreadable", f"manifest list {s['list']} missing/unreadable")]
        if self._sha(s["list"]) != fr["list_sha"]:
            out.append(("list-bytes", f"manifest list {s['list']} content changed"))
        if [m["id"] for m in s["mans"]] != [m[0] for m in fr["mans"]]:
            out.append(("manifest-set", f"manifests {[m['id'] for m in s['mans']]} were {[m[0] for m in fr['mans']]}"))
            return out
        for m, (mid, sha, ents) in zip(s["mans"], fr["mans"]):
            if m["entries"] is None:
                out.append(("manifest-unreadable", f"manifest {mid} missing/unreadable"))
            elif m["entries"] != ents:
                out.append(("manifest-entries", f"manifest {mid} entries {m['entries']} were {ents}"))
            elif self._sha(mid) != sha:
                out.append(("manifest-bytes", f"manifest {mid} content changed"))
        rows: List[Dict[str, Any]] = []
        for f, sha in fr["files"]:
            now = self._sha(f)
            if now is None:
                out.append(("data-missing", f"data file {f} missing"))
                continue
            if now != sha:
                out.append(("data-bytes", f"data file {f} content changed"))
            try:
                rows.extend(project.read_rows(self.reader, f))
            except Exception as e:  # noqa: BLE001
                out.append(("data-unreadable", f"data file {f}: {e!r}"))
        if not any(d[0].startswith("data-") for d in out) and _rowkey(rows) != fr["rows"]:
            out.append(("rows", f"rows {_rowkey(rows)} were {fr['rows']}"))
        return out

    def _time_travel(self, viol: Any, kind: str) -> List[Dict[str, Any]]:
        """time_travel(snapshot_id=..) for every retained snapshot; time_travel(timestamp=t) for t at,
        between and around every commit time, against the reference answer."""
        out: List[Dict[str, Any]] = []
        for s in self.am["snaps"]:
            fr = self.ghost.frozen.get(s["id"])
            got = self.table.time_travel(snapshot_id=s["id"])
            if got is None or got.snapshot_id != s["id"]:
                viol("c09", f"lookup-by-id:{kind}", f"time_travel(snapshot_id={s['id']}) returned {got}")
            elif fr is not None:
                rec = {"seq": got.sequence_number, "ts": got.timestamp_ms - self.clock.base_ms, "list": _strip(got.manifest_list)}
                if rec != {k: fr["snap"][k] for k in ("seq", "ts", "list")}:
                    viol("c09", f"lookup-by-id-changed:{kind}", f"time_travel(snapshot_id={s['id']}) returned {rec}, committed {fr['snap']}")
        times = {-1, T0 - 1, self.clock.t, self.clock.t + 1}
        for c in self.ghost.commits:
            times |= {c["ts"] - 1, c["ts"], c["ts"] + 1}
        for t in sorted(times):
            cands = [s["id"] for s in self.am["snaps"] if s["ts"] <= t]
            want = self.ghost.latest(cands)
            got = self.table.time_travel(timestamp=self.clock.base_ms + t)
            gid = got.snapshot_id if got is not None else 0
            out.append({"t": t, "got": gid, "ref": want})
            if gid != want:
                eq = "equal-ts" if want and gid and self._ts_of(want) == self._ts_of(gid) else "plain"
                viol("c09", f"lookup-by-timestamp:{eq}", f"time_travel(timestamp=base+{t}) returned snapshot {gid}; most recently committed retained snapshot with ts <= t is {want} (retained (id,ts): {[(s['id'], s['ts']) for s in self.am['snaps']]})")
        return out


def replay_history(ops: List[Dict[str, Any]], table_dir: str, clock: VirtualClock, root: Optional[str] = None,
                   seed: int = 0) -> List[Dict[str, Any]]:
    """Replay one history on a fresh table at `table_dir` (must not exist or be empty).  The clock
    must be installed (use `with clock:`); it is reset to 0.  Returns one observation per step."""
    if not clock._saved:
        raise MachineryError("replay_history: the virtual clock is not installed")
    clock.reset()
    rp = Replayer(table_dir, clock, root=root, seed=seed)
    out = []
    try:
        for op in ops:
            out.append(rp.step(op))
    finally:
        for o in rp.open:
            try:
                o["tx"].rollback()
            except Exception:  # noqa: BLE001
                pass
    return out


# ------------------------------------------------------------------------------------------------
# comparison with the specification's expected observation (History.tla View)
# ------------------------------------------------------------------------------------------------
def _canon_meta(am: Dict[str, Any], canon: project.Canon, name_key: str) -> Dict[str, Any]:
    """Same traversal order on both sides => ids comparable by order of first appearance."""
    c = canon
    out: Dict[str, Any] = {"metaName": c.id("meta", am[name_key])}
    snaps = []
    for s in am["snaps"]:
        d = {"id": c.id("snap", s["id"])}
        d["parent"] = 0 if s["parent"] == 0 else c.id("snap", s["parent"])
        d["seq"], d["ts"] = s["seq"], s["ts"]
        d["list"] = c.id("list", s["list"])
        d["mans"] = None if s["mans"] is None else [
            {"id": c.id("man", m["id"]),
             "entries": None if m["entries"] is None else [
                 {"file": c.id("file", e["file"]), "status": e["status"],
                  "snap": 0 if e["snap"] in (0, None) else c.id("snap", e["snap"]), "seq": e["seq"]} for e in m["entries"]]}
            for m in s["mans"]]
        snaps.append(d)
    out["snaps"] = snaps
    out["cur"] = 0 if am["cur"] == 0 else c.id("snap", am["cur"])
    out["slog"] = [c.id("snap", e) for e in am["slog"]]
    out["mlog"] = [c.id("meta", e) for e in am["mlog"]]
    for k in ("lastUpd", "lastSeq", "retention", "mlogMax"):
        out[k] = am[k]
    return out


def compare_expected(observations: List[Dict[str, Any]], expected_steps: List[Dict[str, Any]]) -> List[Dict[str, Any]]:
    """Differences between the real per-step observation and the specification's expectation."""
    diffs: List[Dict[str, Any]] = []
    creal, cspec = project.Canon(), project.Canon()
    # the initial metadata file is name 1 in the specification
    for i, (o, e) in enumerate(zip(observations, expected_steps)):
        real = _canon_meta(o["abs"], creal, "metaName")
        em = dict(e["meta"])
        em["metaName"] = e["metaName"]
        spec = _canon_meta(em, cspec, "metaName")
        if o["res"] != e["res"]:
            diffs.append({"step": i + 1, "field": "res", "real": o["res"], "spec": e["res"]})
        if o["clock"] != e["clock"]:
            raise MachineryError(f"clock mismatch at step {i + 1}: {o['clock']} vs {e['clock']}")
        for k in spec:
            if real[k] != spec[k]:
                diffs.append({"step": i + 1, "field": k, "real": real[k], "spec": spec[k]})
        ed = e["disk"]
        rd = {"d": len(o["files"]["d"]), "m": len(o["files"]["m"]), "l": len(o["files"]["l"]), "markers": len(o["files"]["markers"])}
        if rd != ed:
            diffs.append({"step": i + 1, "field": "disk", "real": rd, "spec": ed})
        if e["gc"]["ran"]:
            g = o.get("gc") or {"deleted": {}, "aborted": None}
            if g["aborted"] != e["gc"]["aborted"] or any(g["deleted"].get(k) != e["gc"][k] for k in ("d", "m", "l")):
                diffs.append({"step": i + 1, "field": "gc", "real": g, "spec": e["gc"]})
        # time travel: the specification's REFERENCE answers must agree with the driver's reference
        tt = {p["t"]: p for p in o.get("time_travel", [])}
        for p in e["probes"]:
            if p["t"] in tt:
                r_ref = tt[p["t"]]["ref"]
                s_ref = 0 if p["ref"] == 0 else cspec.maps.get("snap", {}).get(p["ref"], -1)
                r_can = 0 if r_ref == 0 else creal.maps.get("snap", {}).get(r_ref, -2)
                if s_ref != r_can:
                    diffs.append({"step": i + 1, "field": f"probe-ref@{p['t']}", "real": r_can, "spec": s_ref})
    return diffs


# ------------------------------------------------------------------------------------------------
# case generation through TLC
# ------------------------------------------------------------------------------------------------
ALL_INVARIANTS = ["WellFormedInv", "StepInv", "RetainedImmutable", "ByTimestampMeansMostRecent",
                  "DeleteCurrentRepoints", "GCKeepsReachable", "GCRemovesOldOrphans"]

OPS = {
    "append1": {"op": "append", "n": 1}, "append2": {"op": "append", "n": 2},
    "multi_a": {"op": "multi", "n": 1, "sel": "first", "cut": "all"},
    "multi_b": {"op": "multi", "n": 1, "sel": "last", "cut": "none"},
    "multi_c": {"op": "multi", "n": 0, "sel": "first", "cut": "old"},
    "del_first": {"op": "delete", "sel": "first"}, "del_last": {"op": "delete", "sel": "last"},
    "del_absent": {"op": "delete", "sel": "absent"},
    "exp_all": {"op": "expire", "cut": "all"}, "exp_old": {"op": "expire", "cut": "old"},
    "ds_oldest": {"op": "delsnap", "which": "oldest"}, "ds_current": {"op": "delsnap", "which": "current"},
    "ds_second": {"op": "delsnap", "which": "second"},
    "ret1": {"op": "retention", "k": 1}, "ret2": {"op": "retention", "k": 2},
    "mlog1": {"op": "mlogmax", "k": 1}, "mlog2": {"op": "mlogmax", "k": 2},
    "tick1": {"op": "tick", "d": 1}, "tickneg": {"op": "tick", "d": -1}, "tickbig": {"op": "tick", "d": TICK_BIG},
    "coll0": {"op": "collect", "g": 0}, "colldef": {"op": "collect", "g": GRACE_DEFAULT},
    "colllarge": {"op": "collect", "g": GRACE_LARGE},
    "fail": {"op": "fail"}, "open": {"op": "open"}, "rollback": {"op": "rollback"}, "commitopen": {"op": "commitopen"},
}
ALPHA = {
    "c15": ["append1", "append2", "multi_a", "multi_b", "multi_c", "del_first", "del_last", "del_absent", "exp_all",
            "exp_old", "ds_oldest", "ds_current", "ds_second", "ret1", "ret2", "mlog1", "mlog2", "tick1"],
    "c09": ["append1", "append2", "del_first", "del_last", "exp_all", "exp_old", "ds_oldest", "ds_current", "ds_second",
            "coll0", "colldef", "fail", "ret1", "tick1", "tickbig"],
    "gc": ["append1", "append2", "del_first", "exp_all", "ds_oldest", "ds_current", "open", "rollback", "commitopen",
           "fail", "coll0", "colldef", "colllarge", "tick1", "tickbig"],
}


ALPHA["c15neg"] = ALPHA["c15"] + ["tickneg"]


def sample_histories(mode: str, n: int, length: int, seed: int, weights: Optional[Dict[str, float]] = None) -> List[List[Dict[str, Any]]]:
    """Seeded sample of histories of the given length over the mode's alphabet.  Python only PICKS
    which histories TLC evaluates; the expected behaviour and the invariant verdicts come from TLC."""
    r = rng(seed, "history-sample", mode, length)
    names = ALPHA[mode]
    w = [(weights or {}).get(x, 1.0) for x in names]
    out, seen = [], set()
    guard = 0
    while len(out) < n and guard < 50 * n + 100:
        guard += 1
        h = tuple(r.choices(names, weights=w, k=length))
        if h in seen:
            continue
        seen.add(h)
        out.append([OPS[x] for x in h])
    return out


def tlc_cases(mode: str, exhaustive_len: int, given: List[List[Dict[str, Any]]], *, flaw: str = "none",
              invariants: Optional[List[str]] = None, timeout_s: int = 900, workers: Any = 4,
              label: str = "") -> Tuple[Any, List[Dict[str, Any]]]:
    """Run MC_HistoryCases: TLC enumerates all histories of length `exhaustive_len` over the mode's
    alphabet plus the `given` ones, checks every invariant after every step of every history and
    exports the expected observation.  Returns (TLCResult, cases)."""
    from . import tlc

    d = scratch_dir("hcases")
    fin, fout = os.path.join(d, "given.ndjson"), os.path.join(d, "cases.ndjson")
    with open(fin, "w") as f:
        for h in given:
            f.write(json.dumps({"ops": h}) + "\n")
    cfg = tlc.make_cfg(spec="Spec", constants={"Mode": mode, "ExLen": exhaustive_len, "Flaw": flaw},
                       invariants=invariants if invariants is not None else ALL_INVARIANTS,
                       postcondition="Export", check_deadlock=False)
    res = tlc.run_tlc("MC_HistoryCases", cfg, env={"VERIF_IN": fin, "VERIF_OUT": fout}, timeout_s=timeout_s,
                      workers=workers, label=label or f"MC_HistoryCases {mode} ex={exhaustive_len} given={len(given)}")
    cases: List[Dict[str, Any]] = []
    if res.ok and os.path.exists(fout):
        with open(fout) as f:
            cases = [json.loads(line) for line in f if line.strip()]
    shutil.rmtree(d, ignore_errors=True)
    return res, cases


def gc_history_cases(exhaustive_len: int = 3, sample: int = 0, sample_len: int = 6, seed: int = 0,
                     workers: Any = 4) -> Tuple[Any, List[Dict[str, Any]]]:
    """Sequential GC histories for C05: TLC-enumerated (all of length `exhaustive_len`) plus a seeded
    sample of longer ones, each with the specification's expected observation after every step.
    TLC has checked GCKeepsReachable / GCRemovesOldOrphans / RetainedImmutable on every step."""
    given = sample_histories("gc", sample, sample_len, seed,
                             weights={"open": 2.0, "coll0": 1.5, "colldef": 1.5, "tickbig": 2.0}) if sample else []
    given = [[OPS[x] for x in h] for h in GC_DIRECTED] + given
    return tlc_cases("gc", exhaustive_len, given, workers=workers)


# directed histories (always evaluated by TLC and replayed under every location spelling): a transaction left open for longer
# than any grace period while a collection runs; survivors of a partial delete after the older snapshots were expired
GC_DIRECTED = [["open", "tickbig", "coll0", "commitopen"], ["open", "tickbig", "colldef", "commitopen", "coll0"],
               ["open", "tickbig", "coll0", "rollback", "coll0"], ["append2", "del_first", "exp_all", "tickbig", "coll0"],
               ["append2", "del_first", "ds_oldest", "tickbig", "colldef"]]


def replay_case(case: Dict[str, Any], clock: VirtualClock, seed: int = 0, table_dir: Optional[str] = None,
                root: Optional[str] = None) -> Dict[str, Any]:
    """Replay one exported case on a scratch table; returns {"obs", "violations", "drift"}."""
    own = table_dir is None
    d = scratch_dir("hist") if own else None
    loc = os.path.join(d, "t") if own else table_dir  # type: ignore[arg-type]
    try:
        obs = replay_history(case["ops"], loc, clock, root=root, seed=seed)  # type: ignore[arg-type]
        viol = [dict(v, step=o["step"]) for o in obs for v in o["violations"]]
        drift = compare_expected(obs, case["steps"]) if "steps" in case else []
        return {"obs": obs, "violations": viol, "drift": drift}
    finally:
        if own and d:
            shutil.rmtree(d, ignore_errors=True)


# ------------------------------------------------------------------------------------------------
# shared check driver for harness/props/c15.py, c09.py (and usable by c05.py)
# ------------------------------------------------------------------------------------------------
def _nontrivial(case: Dict[str, Any]) -> bool:
    kinds = {o["op"] for o in case["ops"]} - {"tick"}
    return len(kinds) >= 2


def check_histories(ctx: Any, cats: Iterable[str], mode: str, exhaustive_len: int, n_sample: int, sample_len: int,
                    *, invariants: Optional[List[str]] = None, weights: Optional[Dict[str, float]] = None,
                    workers: Any = 4, timeout_s: int = 900, clock: Optional[VirtualClock] = None,
                    directed: Optional[List[List[str]]] = None, repeat_directed: int = 1) -> Dict[str, Any]:
    """TLC enumerates/evaluates the histories (all of length `exhaustive_len` + a seeded sample of
    length `sample_len`), proves the invariants on each step, exports the expectation; every history is
    replayed on the real library.  Violations of the categories in `cats` are reported through ctx
    (verdict by the property oracles on the real storage); differences from the specification's
    expectation that break no property are counted as model drift."""
    cats = set(cats)
    given = sample_histories(mode, n_sample, sample_len, ctx.seed, weights) if n_sample else []
    # directed histories (op names of OPS): scenarios whose detection power depends on the library's
    # random snapshot ids are replayed `repeat_directed` times (fresh ids every time)
    dir_ops = [[OPS[x] for x in h] for h in (directed or [])]
    given = given + dir_ops
    res, cases = tlc_cases(mode, exhaustive_len, given, invariants=invariants, workers=workers, timeout_s=timeout_s)
    ctx.add_tlc(res)
    if not res.ok:
        ctx.violation(f"model:{mode}:{','.join(res.violated) or 'error'}",
                      f"TLC: {res.violated} violated on the histories of MC_HistoryCases ({mode})", res.error_trace[:6000])
        return {"cases": 0, "steps": 0, "drift": 0}
    if len(cases) != res.distinct:
        raise MachineryError(f"exported {len(cases)} histories but TLC checked {res.distinct} states")
    own_clock = clock is None
    clock = clock or VirtualClock()
    if own_clock:
        clock.install()
    drift = steps = 0
    drift_sample: List[Any] = []
    try:
        dir_keys = {json.dumps(h, sort_keys=True) for h in dir_ops}
        todo = []
        for case in cases:
            k = repeat_directed if json.dumps(case["ops"], sort_keys=True) in dir_keys else 1
            todo.extend((case, i) for i in range(k))
        for case, rep in todo:
            r = replay_case(case, clock, seed=ctx.seed + rep)
            steps += len(case["ops"])
            ctx.count_case((mode, case["ops"]), nontrivial=_nontrivial(case))
            reported = False
            for v in r["violations"]:
                if v["cat"] in cats:
                    reported = True
                    ctx.violation(v["sig"], f"history {json.dumps(case['ops'])} step {v['step']}: {v['what']}",
                                  {"kind": "history", "mode": mode, "ops": case["ops"], "step": v["step"], "violation": v})
            if r["drift"]:
                drift += 1
                if len(drift_sample) < 3:
                    drift_sample.append({"ops": case["ops"], "diff": r["drift"][:2], "property_violation": reported})
    finally:
        if own_clock:
            clock.uninstall()
    ctx.count_traces(len(todo))
    ctx.cov[f"histories_replayed_{mode}"] = len(todo)
    ctx.cov[f"steps_replayed_{mode}"] = steps
    ctx.cov["model_drift_notes"] = ctx.cov.get("model_drift_notes", 0) + drift
    if drift_sample:
        ctx.cov.setdefault("model_drift_samples", []).extend(drift_sample)
    if cases:
        ctx.sample({"history": cases[len(cases) // 2]["ops"], "expected_final_meta": cases[len(cases) // 2]["steps"][-1]["meta"] if cases[len(cases) // 2]["steps"] else None})
    return {"cases": len(cases), "steps": steps, "drift": drift}


def check_model(ctx: Any, mode: str, max_len: int, invariants: List[str], *, flaw: str = "none",
                workers: Any = 6, timeout_s: int = 900) -> Any:
    """MC_History: all histories up to max_len, every invariant after every step."""
    from . import tlc

    cfg = tlc.make_cfg(spec="Spec", constants={"Mode": mode, "MaxLen": max_len, "Flaw": flaw},
                       invariants=invariants, check_deadlock=False)
    return tlc.run_tlc("MC_History", cfg, timeout_s=timeout_s, workers=workers,
                       label=f"MC_History mode={mode} len<={max_len} flaw={flaw}")


def expect_flaw_caught(ctx: Any, mode: str, max_len: int, flaw: str, invariant: str) -> None:
    """Anti-vacuity companion: with the model deliberately broken, the invariant must FAIL."""
    res = check_model(ctx, mode, max_len, [invariant], flaw=flaw)
    if invariant not in res.violated:
        raise MachineryError(f"anti-vacuity: model flaw {flaw!r} does not violate {invariant} (mode {mode}, len {max_len})")
    ctx.cov.setdefault("anti_vacuity", []).append(f"flaw {flaw} violates {invariant} as expected")
