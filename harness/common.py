"""Shared plumbing for every check: scratch space, verdicts, known findings, evidence.

Exit-code contract (MANIFEST): 0 = property held on everything explored (KNOWN-FINDING lines
allowed), 1 = at least one unlisted violation (a `VIOLATION property=<id> replay=<path>` line is
printed for each), 2 = machinery failure (TLC crashed, vacuous coverage, harness self-test failed).
"""
from __future__ import annotations

import atexit
import hashlib
import json
import os
import random
import shutil
import sys
import tempfile
import threading
import time
from typing import Any, Dict, List, Optional

VERIF = os.path.dirname(os.path.dirname(os.path.abspath(__file__)))
REPO = os.environ.get("DATASHARD_REPO", "/repo")
SPEC = os.environ.get("VERIF_SPEC_DIR") or os.path.join(VERIF, "spec")      # (override: developing a spec change while checks run)
# VERIF_OUT_DIR redirects evidence/replays (used only by mutation self-tests so they do not
# clobber the evidence of the real tree)
_OUT = os.environ.get("VERIF_OUT_DIR", VERIF)
EVIDENCE = os.path.join(_OUT, "evidence")
REPLAYS = os.path.join(_OUT, "replays")
KNOWN_FINDINGS = os.path.join(VERIF, "known_findings.json")
GUARD = "DATASHARD_VERIF"

_scratch_root: Optional[str] = None
_scratch_lock = threading.Lock()


class MachineryError(Exception):
    """The verification machinery itself failed (exit 2); never used for a property violation."""


def scratch_root() -> str:
    """Per-process scratch directory (tmpfs when available); removed at exit."""
    global _scratch_root
    with _scratch_lock:
        return _scratch_root_locked()


def _scratch_root_locked() -> str:
    global _scratch_root
    if _scratch_root is None:
        base = "/dev/shm" if os.path.isdir("/dev/shm") and os.access("/dev/shm", os.W_OK) else tempfile.gettempdir()
        parent = os.environ.get("DSVERIF_SCRATCH_PARENT")
        if parent and os.path.isdir(parent):
            base = parent           # a worker process: its scratch lives inside the main process's, which removes everything
        _scratch_root = tempfile.mkdtemp(prefix="dsverif-", dir=base)
        if not parent:
            os.environ["DSVERIF_SCRATCH_PARENT"] = _scratch_root       # inherited by pool workers and child processes
        root = _scratch_root
        pid = os.getpid()

        def _cleanup() -> None:
            if os.getpid() == pid:
                shutil.rmtree(root, ignore_errors=True)

        atexit.register(_cleanup)
    return _scratch_root


def scratch_dir(prefix: str = "d") -> str:
    return tempfile.mkdtemp(prefix=prefix + "-", dir=scratch_root())


def seed_from_env() -> int:
    try:
        return int(os.environ.get("VERIF_SEED", "0"))
    except ValueError:
        return 0


def rng(seed: int, *salt: Any) -> random.Random:
    h = hashlib.sha256(repr((seed,) + salt).encode()).digest()
    return random.Random(int.from_bytes(h[:8], "big"))


def digest(obj: Any) -> str:
    return hashlib.sha256(json.dumps(obj, sort_keys=True, default=str).encode()).hexdigest()[:16]


def load_known_findings() -> Dict[str, Any]:
    """known_findings.json plus (while checks are being built in parallel) known_findings.d/*.json."""
    out: Dict[str, Any] = {"open": [], "fixed": []}
    paths = [KNOWN_FINDINGS] if os.path.exists(KNOWN_FINDINGS) else []
    ddir = os.path.join(VERIF, "known_findings.d")
    if os.path.isdir(ddir):
        paths += sorted(os.path.join(ddir, f) for f in os.listdir(ddir) if f.endswith(".json"))
    for p in paths:
        with open(p) as f:
            d = json.load(f)
        out["open"] += d.get("open", [])
        out["fixed"] += d.get("fixed", [])
    return out


class Ctx:
    """One check invocation: collects coverage counters, violations and writes the evidence file."""

    def __init__(self, prop: str, tier: str, seed: int, level: str = "model_checking") -> None:
        self.prop = prop
        self.tier = tier
        self.seed = seed
        self.level = level
        self.t0 = time.time()
        self.cov: Dict[str, Any] = {
            "states": 0,
            "transitions": 0,
            "traces_validated_against_impl": 0,
            "evaluations": 0,
            "distinct_nontrivial": 0,
            "samples": [],
            "rule": "",
            "tlc_runs": [],
        }
        self._distinct: set = set()
        self.assumptions: List[str] = []
        self.violations: List[Dict[str, Any]] = []
        self.known_hits: List[Dict[str, Any]] = []
        self._known = [k for k in load_known_findings().get("open", []) if k.get("property") == prop]
        self._replay_n = 0
        os.makedirs(os.path.join(REPLAYS, prop), exist_ok=True)

    # ---- coverage -------------------------------------------------------------------------
    def add_tlc(self, res: "Any", label: str = "") -> None:
        self.cov["states"] += int(res.distinct)
        self.cov["transitions"] += int(res.generated)
        self.cov["tlc_runs"].append(
            {"label": label or res.label, "distinct": res.distinct, "generated": res.generated,
             "depth": res.depth, "wall_s": round(res.wall_s, 2), "mode": res.mode}
        )

        # action coverage of the run (when TLC was asked for it): for trace validation these are the trace-spec disjuncts the
        # REAL executions exercised - an action that never fires was never bound to the code by this run
        cov = getattr(res, "coverage", None)
        if cov:
            agg = self.cov.setdefault("spec_actions_taken", {})      # (trace validation: counted on the first batches only)
            for k, v in cov.items():
                agg[k] = agg.get(k, 0) + int(v)

    def count_eval(self, n: int = 1) -> None:
        self.cov["evaluations"] += n

    def count_case(self, key: Any, nontrivial: bool = True) -> None:
        """Register an explored case; distinct non-trivial ones are counted once by canonical hash."""
        self.cov["evaluations"] += 1
        if nontrivial:
            d = digest(key)
            if d not in self._distinct:
                self._distinct.add(d)
                self.cov["distinct_nontrivial"] = len(self._distinct)

    def count_traces(self, n: int = 1) -> None:
        self.cov["traces_validated_against_impl"] += n

    def sample(self, obj: Any, cap: int = 6) -> None:
        if len(self.cov["samples"]) < cap:
            self.cov["samples"].append(obj)

    def rule(self, text: str) -> None:
        self.cov["rule"] = text

    def assume(self, *texts: str) -> None:
        for t in texts:
            if t not in self.assumptions:
                self.assumptions.append(t)

    # ---- verdicts -------------------------------------------------------------------------
    def write_replay(self, payload: Any, name: Optional[str] = None) -> str:
        self._replay_n += 1
        fn = name or f"{self.tier}-{self._replay_n:03d}.json"
        path = os.path.join(REPLAYS, self.prop, fn)
        with open(path, "w") as f:
            if isinstance(payload, str):
                f.write(payload)
            else:
                json.dump(payload, f, indent=1, default=str)
        return path

    def violation(self, signature: str, what: str, replay: Any) -> None:
        """Report a violation. `signature` identifies the failing input/call site/history class;
        it is matched against the committed known-findings list (never written at run time)."""
        for k in self._known:
            if k.get("signature") == signature:
                if not any(h["signature"] == signature for h in self.known_hits):
                    self.known_hits.append({"signature": signature, "what": k.get("what", what)})
                    print(f"KNOWN-FINDING: property={self.prop} {k.get('what', what)}", flush=True)
                return
        for v in self.violations:
            if v["signature"] == signature:
                v["count"] = v.get("count", 1) + 1
                return
        if len(self.violations) >= 25:
            return
        path = self.write_replay({"property": self.prop, "signature": signature, "what": what, "replay": replay})
        self.violations.append({"signature": signature, "what": what, "replay": path})
        print(f"VIOLATION property={self.prop} replay={path}", flush=True)
        print(f"  what: {what}", flush=True)

    # ---- finish ---------------------------------------------------------------------------
    def finish(self) -> int:
        cov = dict(self.cov)
        if not cov["samples"]:
            cov["samples"] = ["(no sample recorded)"]
        if "exhaustive" in cov and not isinstance(cov["exhaustive"], bool):      # the evidence schema wants a boolean
            cov["exhaustive_note"] = str(cov["exhaustive"])
            cov["exhaustive"] = False
        # evidence schema: model_checking wants states/transitions >= 1 when present
        if self.level == "model_checking" and (cov["states"] < 1 or cov["transitions"] < 1):
            cov.pop("states")
            cov.pop("transitions")
        ev = {
            "property_id": self.prop,
            "tier": self.tier,
            "seed": self.seed,
            "level": self.level,
            "coverage": cov,
            "assumptions": self.assumptions,
            "wall_s": round(time.time() - self.t0, 2),
            "violations": len(self.violations),
            "known_findings_hit": self.known_hits,
        }
        os.makedirs(EVIDENCE, exist_ok=True)
        tmp = os.path.join(EVIDENCE, f".{self.prop}.json.tmp")
        with open(tmp, "w") as f:
            json.dump(ev, f, indent=1, default=str)
        os.replace(tmp, os.path.join(EVIDENCE, f"{self.prop}.json"))
        status = "VIOLATIONS" if self.violations else "ok"
        print(
            f"[{self.prop}/{self.tier}] {status}: states={self.cov['states']} transitions={self.cov['transitions']} "
            f"impl_traces={self.cov['traces_validated_against_impl']} evaluations={self.cov['evaluations']} "
            f"distinct_nontrivial={self.cov['distinct_nontrivial']} known={len(self.known_hits)} "
            f"wall={ev['wall_s']}s",
            flush=True,
        )
        return 1 if self.violations else 0


def die_machinery(msg: str) -> "None":
    print(f"MACHINERY-ERROR: {msg}", file=sys.stderr, flush=True)
    sys.exit(2)
