"""Command-line driver: ./check <ID> [--tier quick|thorough] [--replay FILE] | --setup | --list"""
from __future__ import annotations

import argparse
import glob
import importlib
import os
import sys
import traceback

from .common import SPEC, VERIF, Ctx, MachineryError, seed_from_env


def _setup() -> int:
    """Offline self-check: every spec parses, the library imports from /repo, TLC starts."""
    from . import tlc

    bad = 0
    for f in sorted(glob.glob(os.path.join(SPEC, "*.tla"))):
        try:
            tlc.sany(f)
        except MachineryError as e:
            print(e)
            bad += 1
    import datashard  # noqa: F401

    src = os.path.realpath(os.path.dirname(datashard.__file__))
    want = os.path.realpath(os.environ.get("DATASHARD_SRC", "/repo/src"))
    if not src.startswith(want):
        print(f"datashard imported from {src}, expected /repo")
        bad += 1
    print(f"setup: {len(glob.glob(os.path.join(SPEC, '*.tla')))} spec modules parsed, datashard from {src}, failures={bad}")
    return 2 if bad else 0


def main() -> int:
    ap = argparse.ArgumentParser()
    ap.add_argument("prop", nargs="?")
    ap.add_argument("--tier", default=os.environ.get("VERIF_TIER", "quick"), choices=["quick", "thorough"])
    ap.add_argument("--replay")
    ap.add_argument("--setup", action="store_true")
    ap.add_argument("--list", action="store_true")
    args = ap.parse_args()
    os.chdir(VERIF)
    if args.setup:
        return _setup()
    if args.list:
        for f in sorted(glob.glob(os.path.join(VERIF, "harness", "props", "c*.py"))):
            print(os.path.basename(f)[:-3].upper())
        return 0
    if not args.prop:
        ap.error("property id required")
    pid = args.prop.upper()
    try:
        mod = importlib.import_module(f"harness.props.{pid.lower()}")
    except ModuleNotFoundError as e:
        print(f"MACHINERY-ERROR: no check module for {pid}: {e}", file=sys.stderr)
        return 2
    ctx = Ctx(pid, args.tier, seed_from_env(), level=getattr(mod, "LEVEL", "model_checking"))
    try:
        if args.replay:
            if not hasattr(mod, "replay"):
                print(f"MACHINERY-ERROR: {pid} has no replay entry", file=sys.stderr)
                return 2
            mod.replay(ctx, args.replay)
        else:
            mod.run(ctx)
    except MachineryError as e:
        print(f"MACHINERY-ERROR: {e}", file=sys.stderr)
        # a violation that was already established (VIOLATION line printed, replay written) stands: a later failure of the
        # machinery (e.g. a self-test that needs a conforming execution of the code under test) must not turn it into exit 2
        return 1 if ctx.finish() == 1 else 2
    except Exception:
        traceback.print_exc()
        print("MACHINERY-ERROR: unhandled exception in check (not a property verdict)", file=sys.stderr)
        try:
            return 1 if ctx.finish() == 1 else 2
        except Exception:
            pass
        return 2
    return ctx.finish()


def _exit(rc: int) -> None:
    """pyarrow worker threads that are still winding down can abort the interpreter during normal
    finalisation (SIGABRT after the verdict was printed); leave without finalisation instead."""
    import shutil

    from . import common

    sys.stdout.flush()
    sys.stderr.flush()
    if common._scratch_root:
        shutil.rmtree(common._scratch_root, ignore_errors=True)
    os._exit(rc)


if __name__ == "__main__":
    _exit(main())
