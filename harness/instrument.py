"""Instrumentation of the real library, installed from outside (no repository edits).

install(env) monkey-patches, inside the harness process only:
  * LocalStorageBackend / S3StorageBackend public methods  -> gates + spec-level events
  * MetadataManager._current_version_info                  -> one `Resolve` event positioned at its
                                                              linearisation point (the pointer read / the listing)
  * DataFileManager.write_data_file                        -> `WriteData` (the local data publish does not go
                                                              through the backend)
  * MetadataManager.__init__                               -> handle thread lock replaced by a cooperative lock
  * FileLock._try_acquire_once / release                   -> `LockTry` / `DUnlock`
  * time / datetime as seen by the library's modules       -> the scheduler's virtual clock
Every patch is undone by uninstall().  Actor code calls the ordinary public API.
"""
from __future__ import annotations

import os
import sys
import threading
import time as _real_time
import datetime as _real_datetime
from typing import Any, Callable, Dict, List, Optional, Tuple

from .project import META_RE
from .sched import Actor, Clock, Scheduler

HINT = "metadata.version-hint.text"
_RealDT = _real_datetime.datetime

_env: Optional["Env"] = None
_patches: List[Tuple[Any, str, Any]] = []
_tls = threading.local()


def classify(path: str) -> str:
    p = path.lstrip("/")
    base = p.rsplit("/", 1)[-1]
    if p == HINT:
        return "hint"
    if p.startswith("metadata/inflight/"):
        return "marker"
    if p.startswith("metadata/manifests/"):
        return "list" if base.startswith("manifest_list_") else "man"
    if p.startswith("metadata/") and META_RE.match(base):
        return "meta"
    if p.startswith("data/"):
        return "data"
    if p.startswith(".locks/"):
        return "lock"
    if p in ("metadata", "data", "metadata/manifests", "metadata/inflight", ".locks") or p.endswith("/"):
        return "dir"
    return "other"


class IdMap:
    """Raw identifiers -> the small integers the specification uses.

    The numbering scheme is the one DataShard.tla uses when model checking (IdBase(a) = Idx*1000 +
    opIndex*100 + attempt*10), so a trace's identifiers are determined by who created them and when,
    not by the order in which a schedule happened to reveal them.
    """

    def __init__(self) -> None:
        self.file: Dict[str, int] = {}      # table-relative path -> id (data, manifests, lists)
        self.sid: Dict[int, int] = {}       # raw snapshot id -> id
        self.meta: Dict[str, Dict[str, int]] = {}   # metadata file name -> {v,u}
        self.uuid: Dict[str, int] = {}

    def fid(self, path: str) -> int:
        p = path.lstrip("/")
        if p not in self.file:
            self.file[p] = 5000 + len(self.file)      # unknown provenance: still a stable id
        return self.file[p]

    def snap(self, raw: Any) -> int:
        if raw is None or raw == -1:
            return 0
        if raw not in self.sid:
            self.sid[raw] = 7000 + len(self.sid)
        return self.sid[raw]

    def name(self, fn: Optional[str]) -> Dict[str, int]:
        if not fn:
            return {"v": -1, "u": 0}
        fn = fn.rsplit("/", 1)[-1]
        if fn not in self.meta:
            m = META_RE.match(fn)
            self.meta[fn] = {"v": int(m.group(1)) if m else -2, "u": 8000 + len(self.meta)}
        return self.meta[fn]

    def uid(self, raw: str) -> int:
        if raw not in self.uuid:
            self.uuid[raw] = len(self.uuid) + 1
        return self.uuid[raw]


class CoopRLock:
    """Drop-in for threading.RLock whose blocking is a scheduler gate (a parked holder must not
    deadlock the baton).  Emits TLock/TUnlock only for the acquisitions the specification models
    (commit / initialize_table); refresh()'s short acquisitions are gates without events."""

    def __init__(self, env: "Env", handle: str) -> None:
        self.env = env
        env.coop_locks.append(self)
        self.handle = handle
        self.owner: Optional[str] = None
        self.depth = 0
        self.evented: List[bool] = []

    def _who(self) -> str:
        a = self.env.sched.me()
        return a.name if a else f"thread-{threading.get_ident()}"

    def acquire(self, blocking: bool = True, timeout: float = -1) -> bool:
        me = self._who()
        if self.owner == me:
            self.depth += 1
            self.evented.append(False)
            return True
        caller = _frames(2, 2)           # the function executing `with self._lock:`
        modelled = bool(caller) and caller[0][0] == "metadata_manager.py" and caller[0][1] in ("commit", "initialize_table")
        while True:
            if modelled or self.owner is not None:
                self.env.sched.gate("tlock", handle=self.handle, blocked=lambda: self.owner is not None)
            if self.owner is None:
                self.owner = me
                self.depth = 1
                self.evented = [modelled]
                if modelled:
                    self.env.sched.emit({"k": "TLock"})
                return True

    def release(self) -> None:
        self.depth -= 1
        ev = self.evented.pop() if self.evented else False
        if self.depth == 0:
            d = self.env.sched.gate("tunlock", handle=self.handle) if ev else None
            self.owner = None
            if ev:
                self.env.sched.emit({"k": "TUnlock"})

    __enter__ = acquire

    def __exit__(self, *a: Any) -> None:
        self.release()


def _caller_names(skip: int, depth: int = 12) -> List[str]:
    out = []
    f = sys._getframe(skip)
    while f is not None and len(out) < depth:
        out.append(f.f_code.co_name)
        f = f.f_back
    return out


def _frames(skip: int, depth: int = 14) -> List[Tuple[str, str]]:
    out = []
    f = sys._getframe(skip)
    while f is not None and len(out) < depth:
        out.append((os.path.basename(f.f_code.co_filename), f.f_code.co_name))
        f = f.f_back
    return out


def resolve_purpose(frames: List[Tuple[str, str]]) -> str:
    """Why the library is resolving the pointer, from the call stack (innermost first)."""
    names = [n for _f, n in frames]
    via_refresh = any(n in ("refresh", "_refresh_with_info") for n in names[:3])
    for fn, n in frames:
        if fn == "metadata_manager.py" and n == "commit":
            return "validate" if via_refresh else "version"
        if fn == "metadata_manager.py" and n == "initialize_table":
            return "init"
        if n == "_resolve_table_schema" or n == "_get_current_schema":
            return "schema"
        if fn == "transaction.py" and n == "commit":
            return "base"
        if n == "delete_snapshot":
            return "ds"
        if fn == "garbage_collector.py" and n == "collect":
            return "gc"
        if n == "_get_all_data_files":
            return "read2" if "get_current_snapshot" not in names else "read"
        if n == "get_current_snapshot":
            return "read"
        if n in ("get_all_snapshots", "get_snapshot_by_id", "get_snapshot_history"):
            return "query"
        if fn == "transaction.py" and n == "__init__":
            return "open"
        if n in ("load_table", "create_table"):
            return "open"
    return "other"


class FakeTime:
    """Stands in for the `time` module inside the library's modules."""

    def __init__(self, env: "Env") -> None:
        self.env = env

    def time(self) -> float:
        env = self.env
        why = None
        if env.sched.me() is not None:
            for fn, n in _frames(2, 3):
                if fn == "garbage_collector.py" and n == "_load_inflight_protection":
                    why = "gcm"
                    break
                if fn == "garbage_collector.py" and n in ("_gc_prefix", "_gc_listed"):
                    why = "gcc"
                    break
        if why:
            _async_here(env, env.sched.gate("now", why=why), "now")
        ms = env.clock.read_ms()
        if why:
            env.sched.emit({"k": "Now", "why": why, "val": env.clock.rel(ms)})
        return (ms * 1000 + 500) / 1e6

    def monotonic(self) -> float:
        return (self.env.clock.read_ms() * 1000 + 500) / 1e6

    def sleep(self, d: float) -> None:
        self.env.sleep(d)

    def __getattr__(self, n: str) -> Any:
        return getattr(_real_time, n)


def make_fake_datetime(env: "Env") -> Any:
    class _Meta(type):
        def __instancecheck__(cls, inst: Any) -> bool:        # real datetimes are instances too
            return isinstance(inst, _RealDT)

    class FakeDateTime(_RealDT, metaclass=_Meta):
        @classmethod
        def now(cls, tz: Any = None) -> Any:  # type: ignore[override]
            frames = _frames(2, 1)            # the function that reads the clock directly
            why = "other"
            for fn, n in frames:
                if n == "create_snapshot":
                    why = "ts"
                    break
                if fn == "metadata_manager.py" and n == "commit":
                    why = "upd"
                    break
                if n == "initialize_table":
                    why = "upd0"
                    break
            if why in ("ts", "upd", "upd0") and env.sched.me() is not None:
                _async_here(env, env.sched.gate("now", why=why), "now")      # a stored clock read is a scheduling point
            ms = env.clock.read_ms()
            if why in ("ts", "upd", "upd0") and env.sched.me() is not None:
                env.sched.emit({"k": "Now", "why": why, "val": env.clock.rel(ms)})
            return _RealDT.fromtimestamp((ms * 1000 + 500) / 1e6, tz)

    return FakeDateTime


class Env:
    """One instrumented execution: scheduler + virtual clock + id map + per-actor bookkeeping."""

    def __init__(self, clock_mode: str = "strict", lock_kind: str = "excl", backend: str = "local") -> None:
        self.clock = Clock(clock_mode)
        self.sched = Scheduler(self.clock)
        self.ids = IdMap()
        self.lock_kind = lock_kind
        self.backend = backend
        self.flocks: Dict[str, str] = {}            # lock path -> actor name holding it (this process)
        self.idx: Dict[str, int] = {}               # actor -> Idx
        self.opi: Dict[str, int] = {}               # actor -> current operation index (1-based)
        self.att: Dict[str, int] = {}               # actor -> attempt number within the operation
        self.nfiles: Dict[str, int] = {}            # actor -> files written in this attempt
        self.ndata: Dict[str, int] = {}             # actor -> data files written in this operation
        self.allow_spin = False                     # let lock pollers spin (timeout experiments)
        self.data_age_ms = 0                        # > 0: data files are back-dated by this much when written
        self.s3_lock_view: Optional[Callable[[str], bool]] = None   # S3: "is the lock held by someone else and not lapsed?"
        self.flock_objs: Dict[str, Any] = {}       # lock path -> FileLock instance currently holding it
        self.coop_locks: List[Any] = []             # every CoopRLock created (to release what a dead actor held)
        self.lock_deletes: List[Tuple[str, Optional[str]]] = []   # (actor, body of the lock object it deleted)
        self.read_resolves: Dict[str, Tuple[int, int]] = {}      # actor -> (operation index, pointer resolutions of that read so far)
        self.heartbeats: List[Any] = []             # S3 lock providers whose lease would be renewed by a heartbeat thread
        self.etag_names: Dict[Any, Dict[str, int]] = {}
        self.gc_started = False                     # a collection run has begun (no back-dating from here on)
        self.table_root: Optional[str] = None
        self.fault_exc: Callable[[str], BaseException] = lambda what: OSError(f"injected fault: {what}")

    # ---- identifier scheme mirroring DataShard.tla --------------------------------------------
    def id_base(self, a: str) -> int:
        return self.idx.get(a, 9) * 1000 + self.opi.get(a, 0) * 100 + self.att.get(a, 0) * 10

    def new_attempt(self, a: str) -> None:
        self.att[a] = self.att.get(a, 0) + 1
        self.nfiles[a] = 0

    def begin_op(self, a: str) -> None:
        self.opi[a] = self.opi.get(a, 0) + 1
        self.att[a] = 0
        self.nfiles[a] = 0
        self.ndata[a] = 0

    def register_new_file(self, a: str, path: str) -> int:
        p = path.lstrip("/")
        if p not in self.ids.file:
            self.ids.file[p] = self.id_base(a) + 2 + self.nfiles.get(a, 0)
            self.nfiles[a] = self.nfiles.get(a, 0) + 1
        return self.ids.file[p]

    def register_data_file(self, a: str, path: str) -> int:
        p = path.lstrip("/")
        if p not in self.ids.file:
            self.ndata[a] = self.ndata.get(a, 0) + 1
            self.ids.file[p] = self.idx.get(a, 9) * 100 + self.opi.get(a, 0) * 10 + self.ndata[a]
        return self.ids.file[p]

    def register_sid(self, a: str, raw: int) -> int:
        if raw is None or raw == -1:
            return 0
        if raw not in self.ids.sid:
            self.ids.sid[raw] = self.id_base(a) + 1
        return self.ids.sid[raw]

    def register_meta(self, a: str, fn: str) -> Dict[str, int]:
        fn = fn.rsplit("/", 1)[-1]
        if fn not in self.ids.meta:
            m = META_RE.match(fn)
            self.ids.meta[fn] = {"v": int(m.group(1)) if m else -2, "u": self.id_base(a)}
        return self.ids.meta[fn]

    # ---- abstraction of values ----------------------------------------------------------------
    def abs_body(self, d: Dict[str, Any], a: Optional[str] = None) -> Dict[str, Any]:
        def sid(x: Any) -> int:
            return self.register_sid(a, x) if a else self.ids.snap(x)

        snaps = []
        for s in d.get("snapshots", []):
            snaps.append({"id": sid(s["snapshot_id"]), "parent": sid(s.get("parent_snapshot_id")),
                          "seq": s.get("sequence_number") or 0, "ts": self.clock.rel(s["timestamp_ms"]),
                          "list": self.ids.fid(s["manifest_list"])})
        return {
            "uuid": self.ids.uid(d["table_uuid"]),
            "cur": sid(d.get("current_snapshot_id")),
            "lastUpd": self.clock.rel(d["last_updated_ms"]),
            "lastSeq": d["last_sequence_number"],
            "snaps": snaps,
            "slog": [sid(e["snapshot_id"]) for e in d.get("snapshot_log", [])],
            "mlog": [self.ids.name(e["metadata-file"]) for e in d.get("metadata_log", [])],
        }

    # ---- time -----------------------------------------------------------------------------------
    def sleep(self, d: float) -> None:
        a = self.sched.me()
        if a is None:
            return
        why = "other"
        for fn, n in _frames(2, 6):
            if fn in ("instrument.py",) or n == "<lambda>":
                continue
            # the library function that sleeps
            if fn == "transaction.py" and n == "commit":
                why = "backoff"
            elif n == "acquire":
                why = "lockpoll"
            break
        blocked = None
        if why == "lockpoll" and not self.allow_spin:
            blocked = self._lockpoll_blocked(a)
        self.sched.gate("sleep", dur=d, why=why, blocked=blocked)
        if self.clock.mode == "coarse" and why != "lockpoll":
            self.clock.advance(max(1, int(d * 1000)))
            self.sched.emit({"k": "Tick", "val": self.clock.rel(self.clock.peek_ms())})
        if why == "backoff":
            self.sched.emit({"k": "Backoff"})

    def _lockpoll_blocked(self, a: Actor) -> Callable[[], bool]:
        def blocked() -> bool:
            if self.s3_lock_view is not None:
                return self.s3_lock_view(a.name)
            return any(h != a.name for h in self.flocks.values())
        return blocked


def kill_actor(env: "Env", name: str) -> None:
    """The process of actor `name` dies (kill -9) at its current scheduling point: its thread is never
    resumed; what the kernel would release is released here (flock on the closed fd, in-process locks).
    Objects on storage - markers, files, an S3 lock object - stay."""
    a = env.sched.actors[name]
    env.sched.crash(a)
    # a pointer resolution the dead actor had started but not finished never produced a result
    env.sched.trace[:] = [e for e in env.sched.trace if not (e.get("k") == "Resolve" and e.get("a") == name and "ok" not in e)]
    for path, holder in list(env.flocks.items()):
        if holder == name:
            obj = env.flock_objs.pop(path, None)
            if obj is not None and getattr(obj, "_lock_fd", None) is not None:
                try:
                    os.close(obj._lock_fd)          # closing the descriptor drops the kernel lock
                except OSError:
                    pass
                obj._lock_fd = None
                obj._locked = False
                del env.flocks[path]
    for cl in env.coop_locks:
        if cl.owner == name:
            cl.owner, cl.depth, cl.evented = None, 0, []
    env.sched.emit({"k": "Crash", "a": "env", "who": name})


# ------------------------------------------------------------------------------------------------
# patch helpers
# ------------------------------------------------------------------------------------------------

def _patch(obj: Any, name: str, new: Any) -> None:
    _patches.append((obj, name, getattr(obj, name)))
    setattr(obj, name, new)


def uninstall() -> None:
    global _env
    while _patches:
        obj, name, old = _patches.pop()
        setattr(obj, name, old)
    _env = None


def _depth() -> int:
    return getattr(_tls, "depth", 0)


class _Nest:
    def __enter__(self) -> None:
        _tls.depth = _depth() + 1

    def __exit__(self, *a: Any) -> None:
        _tls.depth = _depth() - 1


class Fault:
    """Directive attached to a scheduling decision: make the actor's next storage call fail."""

    def __init__(self, when: str = "before", exc: Optional[BaseException] = None, kind: str = "oserror") -> None:
        self.when = when          # "before" (no effect) | "after" (effect, then raise) | "async" (BaseException before the call)
        self.exc = exc
        self.kind = kind

    def make(self, what: str) -> BaseException:
        if self.exc is not None:
            return self.exc
        if self.kind == "kbd":
            return KeyboardInterrupt()
        if self.kind == "sysexit":
            return SystemExit(1)
        if self.kind == "clienterror":
            # what S3StorageBackend lets through once its retries are exhausted: not an OSError
            import botocore.exceptions

            return botocore.exceptions.ClientError({"Error": {"Code": "InternalError", "Message": f"injected fault at {what}"},
                                                    "ResponseMetadata": {"HTTPStatusCode": 500}}, "Injected")
        return OSError(f"injected fault at {what}")

    def __repr__(self) -> str:
        return f"Fault({self.when},{self.kind})"


class _FsyncFault:
    """While active, the n-th os.fsync call fails with EIO (baton scheduling: only one actor thread runs).
    `fired` tells whether the failing call was on a regular file ("file") or on a directory ("dir")."""

    def __init__(self, n: int) -> None:
        self.n = n
        self.count = 0
        self.fired: Optional[str] = None

    def __enter__(self) -> "_FsyncFault":
        import errno
        import stat as _stat

        self._orig = os.fsync

        def fsync(fd: Any) -> None:
            self.count += 1
            if self.count == self.n:
                try:
                    isdir = _stat.S_ISDIR(os.fstat(fd if isinstance(fd, int) else fd.fileno()).st_mode)
                except Exception:  # noqa: BLE001
                    isdir = False
                self.fired = "dir" if isdir else "file"
                raise OSError(errno.EIO, "injected fsync failure")
            return self._orig(fd)

        os.fsync = fsync
        return self

    def __exit__(self, *exc: Any) -> None:
        os.fsync = self._orig


def _async_here(env: Env, directive: Any, where: str) -> None:
    """Deliver an asynchronous BaseException at a non-storage scheduling point."""
    if isinstance(directive, Fault) and directive.when == "async":
        env.sched.emit({"k": "Fault", "op": where, "cls": "boundary", "when": "async", "kind": directive.kind, "f": 0})
        raise directive.make(where)


def _storage_wrapper(env: Env, op: str, orig: Callable[..., Any]) -> Callable[..., Any]:
    def wrapped(self: Any, path: str, *args: Any, **kw: Any) -> Any:
        s = env.sched
        a = s.me()
        if a is None or _depth() > 0:
            helper = _helper_of(env) if (a is None and _depth() == 0) else None
            try:
                with _Nest():
                    r = orig(self, path, *args, **kw)
            except BaseException as e:  # noqa: BLE001
                if helper is not None:
                    _emit_storage_event(env, helper, op, classify(path), path, args, None, e, None)
                raise
            if a is None and _depth() == 0 and op in ("write_file", "write_file_cas") and env.backend == "local":
                _set_vmtime(env, self, path)
            if helper is not None:
                _emit_storage_event(env, helper, op, classify(path), path, args, r, None, None)
            return r
        cls = classify(path)
        rctx = getattr(_tls, "resolve", None)
        directive = s.gate("storage", op=op, cls=cls, path=path)
        what = f"{op}({cls}:{path})"
        if isinstance(directive, Fault) and directive.when in ("before", "async"):
            s.emit({"k": "Fault", "op": op, "cls": cls, "when": directive.when, "kind": directive.kind, "path": path.strip("/"),
                    "f": env.marker_fid(path) if cls == "marker" else (env.ids.fid(path) if cls in ("data", "man", "list") else 0)})
            if rctx is not None and rctx.get("slot") is not None and rctx["slot"] in s.trace:
                s.trace.remove(rctx["slot"])
                rctx["slot"] = None
            rctx and rctx.__setitem__("faulted", True)
            raise directive.make(what)
        res: Any = None
        err: Optional[BaseException] = None
        s3log = getattr(getattr(self, "s3", None), "log", None)       # in-memory S3: the requests this call issues
        n_req0 = len(s3log) if s3log is not None else 0
        ff: Optional[_FsyncFault] = None
        if isinstance(directive, Fault) and directive.when == "sys" and env.backend == "local" and op in ("write_file", "write_file_cas"):
            ff = _FsyncFault(int(str(directive.kind)[-1]))
        try:
            with _Nest():
                if ff is not None:
                    with ff:
                        res = orig(self, path, *args, **kw)
                else:
                    res = orig(self, path, *args, **kw)
        except BaseException as e:  # noqa: BLE001
            err = e
        if ff is not None and ff.fired is not None:
            # an fsync inside the atomic write failed.  Contract (storage_backend.py: atomic_write_failures): an exception
            # means the file was not replaced; a failed flush of the FILE must surface; only the directory flush is best effort
            try:
                with _Nest():
                    landed = bool(args) and self.exists(path) and self.read_file(path) == args[0]
            except Exception:  # noqa: BLE001
                landed = False
            if err is not None and not landed:
                s.emit({"k": "Fault", "op": op, "cls": cls, "when": "before", "kind": "fsync-" + ff.fired, "path": path.strip("/"),
                        "f": env.marker_fid(path) if cls == "marker" else (env.ids.fid(path) if cls in ("data", "man", "list") else 0)})
                if rctx is not None and rctx.get("slot") is not None and rctx["slot"] in s.trace:
                    s.trace.remove(rctx["slot"])
                    rctx["slot"] = None
                rctx and rctx.__setitem__("faulted", True)
                raise err
            if err is not None and landed:
                # the write took effect AND raised: on the local backend nothing may do that
                _set_vmtime(env, self, path)
                _emit_storage_event(env, a, op, cls, path, args, res, None, rctx)
                s.emit({"k": "Fault", "op": op, "cls": cls, "when": "after", "kind": "fsync-" + ff.fired, "f": 0})
                raise err
            if err is None and ff.fired == "file":
                _set_vmtime(env, self, path)
                _emit_storage_event(env, a, op, cls, path, args, res, None, rctx)
                s.emit({"k": "SysFaultSwallowed", "op": op, "cls": cls, "target": "file"})
                return res
        if err is None and op == "list_files" and isinstance(directive, Fault) and directive.when == "escape":
            res = list(res)
            res.insert(min(len(res), 1), "../outside/x.parquet")      # a listing that escapes the table root
        # virtual mtimes for files written through the backend
        if err is None and op in ("write_file", "write_file_cas") and env.backend == "local":
            _set_vmtime(env, self, path)
        n_ev0 = len(s.trace)
        _emit_storage_event(env, a, op, cls, path, args, res, err, rctx)
        if s3log is not None and cls == "hint" and op in ("read_file_with_etag", "write_file_cas") and len(s.trace) > n_ev0:
            # the specification reads the pointer together with its ETag / writes it conditionally in ONE atomic step:
            # that is only true of the code if the call is a single S3 request
            # (own requests only: a retried read sleeps between attempts and other actors run meanwhile; attempts that
            #  failed before a later one succeeded are retries of the same step)
            me_t = threading.current_thread().name
            mine = [e_ for e_ in s3log[n_req0:] if e_.get("thread") == me_t]
            s.trace[-1]["reqs"] = [e_["op"] for e_ in mine if err is not None or e_.get("status") == "ok"]
        if err is not None:
            raise err
        if isinstance(directive, Fault) and directive.when == "after":
            s.emit({"k": "Fault", "op": op, "cls": cls, "when": "after", "kind": directive.kind, "f": 0})
            raise directive.make(what)
        return res

    wrapped.__name__ = orig.__name__
    return wrapped


def _helper_of(env: Env) -> Optional[Actor]:
    """A pool worker thread of scan(parallel=...) acts for the reader that is currently running:
    its storage calls are not scheduling points, but they are events of that reader."""
    cur = env.sched.current
    if cur is not None and cur.state == "running" and threading.current_thread().name.startswith("ThreadPoolExecutor"):
        return cur
    return None


def _set_vmtime(env: Env, backend: Any, path: str) -> None:
    """File mtimes follow the virtual clock (deterministic ages for recovery tie-breaks and GC)."""
    try:
        vt = env.clock.peek_ms() / 1000.0
        os.utime(backend._resolve_path(path), (vt, vt))
    except Exception:  # noqa: BLE001
        pass


def _marker_target(path: str, content: Any) -> Optional[str]:
    import json

    try:
        return json.loads(content.decode("utf-8"))["file_path"]
    except Exception:  # noqa: BLE001
        return None


class _EmitAs:
    """Scheduler facade that stamps events with a given actor (events of helper threads)."""

    def __init__(self, sched: Scheduler, name: str) -> None:
        self._s = sched
        self._n = name

    def emit(self, ev: Dict[str, Any]) -> None:
        self._s.emit(dict(ev, a=self._n))

    def __getattr__(self, k: str) -> Any:
        return getattr(self._s, k)


def _emit_storage_event(env: Env, a: Actor, op: str, cls: str, path: str, args: Tuple[Any, ...], res: Any,
                        err: Optional[BaseException], rctx: Optional[Dict[str, Any]]) -> None:
    s: Any = env.sched if env.sched.me() is not None else _EmitAs(env.sched, a.name)
    ok = err is None
    errname = type(err).__name__ if err is not None else None
    if op == "read_file_with_etag":
        rctx = None          # the CAS read of the pointer is its own step, never part of a resolution
    if rctx is not None and cls in ("hint", "meta", "dir", "other") or (rctx is not None and op in ("list_files", "get_modified_time")):
        # inside pointer resolution: (re)position the Resolve event at the linearisation point
        if (cls == "hint" and op in ("read_file", "read_file_with_etag")) or (cls == "hint" and op == "exists" and res is False) \
                or (op == "list_files"):
            if rctx.get("slot") is not None and rctx["slot"] in s.trace:
                if op == "list_files":
                    # the pointer was read earlier and found unusable; the scan happens NOW: two linearisation points
                    # (_current_version_info is not atomic) - the earlier one stays in the trace as its own event
                    rctx["slot"]["k"] = "HintUnusable"
                else:
                    s.trace.remove(rctx["slot"])
            rctx["slot"] = s.reserve({"k": "Resolve", "a": a.name})
        return
    if op in ("write_file", "write_file_cas"):
        content = args[0] if args else None
        if cls == "marker":
            tgt = _marker_target(path, content)
            tcls = classify(tgt) if tgt else "other"
            if tcls == "data":
                f = env.register_data_file(a.name, tgt)
            elif tgt:
                f = env.register_new_file(a.name, tgt)
            else:
                f = 0
            s.emit({"k": "WriteMarker", "f": f, "tcls": tcls, "ok": ok, "err": errname})
        elif cls in ("man", "list"):
            f = env.register_new_file(a.name, path)
            ev: Dict[str, Any] = {"k": "WriteMan" if cls == "man" else "WriteList", "f": f, "ok": ok, "err": errname,
                                  "mt": env.clock.rel(env.clock.peek_ms())}
            if ok:
                from . import project

                if cls == "man":
                    ents = project.read_manifest(content)
                    ev["entries"] = [{"file": env.ids.fid(e["file"]), "status": "ADDED" if e["status"] == 1 else "EXISTING",
                                      "snap": env.register_sid(a.name, e["snapshot_id"]), "seq": e["sequence_number"] or 0} for e in ents]
                else:
                    ev["mans"] = [env.ids.fid(m["manifest_path"]) for m in project.read_manifest_list(content)]
                    base = path.rsplit("/", 1)[-1]
                    try:
                        ev["sid"] = env.register_sid(a.name, int(base.split("_")[2]))
                    except Exception:  # noqa: BLE001
                        ev["sid"] = 0
            s.emit(ev)
        elif cls == "meta":
            import json

            name = env.register_meta(a.name, path)
            ev = {"k": "WriteMeta", "name": name, "ok": ok, "err": errname}
            if ok:
                ev["body"] = env.abs_body(json.loads(content.decode("utf-8")), a.name)
            s.emit(ev)
        elif cls == "hint":
            import json

            text = content.decode("utf-8", "replace") if content is not None else ""
            ev = {"k": "FlipHint", "name": env.ids.name(text.strip()), "ok": ok, "err": errname, "cas": op == "write_file_cas"}
            if op == "write_file_cas":
                ev["ifmatch"] = env.etag_name(args[1]) if len(args) > 1 else {"v": -1, "u": 0}
            s.emit(ev)
        else:
            s.emit({"k": "WriteOther", "cls": cls, "ok": ok})
        return
    if op == "delete_file":
        if cls == "marker":
            s.emit({"k": "DeleteMarker", "f": env.marker_fid(path), "ok": ok, "err": errname})
        elif cls == "meta":
            s.emit({"k": "DiscardMeta", "name": env.ids.name(path), "ok": ok, "err": errname})
        else:
            s.emit({"k": "DeleteFile", "f": env.ids.fid(path), "cls": cls, "ok": ok, "err": errname})
        return
    if op == "exists":
        if cls in ("data", "man", "list"):
            s.emit({"k": "Exists", "f": env.ids.fid(path), "cls": cls, "res": bool(res) if ok else False, "ok": ok, "err": errname})
        return
    if op in ("read_file", "open_file", "open_seekable", "get_size"):
        if cls in ("data", "man", "list"):
            s.emit({"k": "Read", "f": env.ids.fid(path), "cls": cls, "ok": ok, "err": errname})
        elif cls == "marker":
            s.emit({"k": "ReadMarker", "f": env.marker_fid(path), "ok": ok, "err": errname})
        return
    if op == "read_file_with_etag" and cls == "hint":
        if ok:
            text = res[0].decode("utf-8", "replace").strip() if res and res[0] is not None else ""
            if text.isdigit():
                text = f"v{text}.metadata.json"            # legacy form: a bare version number
            nm = env.ids.name(text) if META_RE.match(text.rsplit("/", 1)[-1]) else {"v": -1, "u": 0}
            if not hasattr(env, "etag_names"):
                env.etag_names = {}
            env.etag_names[res[1]] = nm
            s.emit({"k": "ReadHintEtag", "name": nm, "ok": True})
        else:
            s.emit({"k": "ReadHintEtag", "name": {"v": -1, "u": 0}, "ok": False, "err": errname})
        return
    if op == "list_files":
        esc = any(p.startswith("..") for p in (res or [])) if ok else False
        lst = sorted(env.ids.fid(p) if classify(p) != "marker" else env.marker_fid(p) for p in (res or []) if not p.startswith("..")) if ok else []
        s.emit({"k": "List", "dir": path.strip("/"), "res": lst, "ok": ok, "err": errname, "esc": esc})
        return
    if op == "get_modified_time":
        if cls == "marker":
            s.emit({"k": "StatMarker", "f": env.marker_fid(path), "ok": ok, "val": env.clock.rel(int(round(res * 1000))) if ok else 0})
        elif cls in ("data", "man", "list"):
            s.emit({"k": "Stat", "f": env.ids.fid(path), "ok": ok, "val": env.clock.rel(int(round(res * 1000))) if ok else 0})
        return


def _marker_fid(env: Env, path: str) -> int:
    """A marker is identified by the file it protects: metadata/inflight/<basename>.inflight."""
    base = path.rsplit("/", 1)[-1]
    if base.endswith(".inflight"):
        base = base[: -len(".inflight")]
    for p, i in env.ids.file.items():
        if p.rsplit("/", 1)[-1] == base:
            return i
    return env.ids.fid("unknown-marker/" + base)


Env.marker_fid = lambda self, path: _marker_fid(self, path)  # type: ignore[attr-defined]
Env.etag_name = lambda self, etag: self.etag_names.get(etag, {"v": -1, "u": 0})  # type: ignore[attr-defined]


class GrantAllLock:
    """A lock provider that gives no exclusion at all (C08: 'even if the lock gives no exclusion')."""

    def __init__(self, env: "Env") -> None:
        self.env = env

    def acquire(self) -> bool:
        if self.env.sched.me() is not None:
            self.env.sched.gate("lock_try", path="grant-all")
            self.env.sched.emit({"k": "LockTry", "ok": True})
        return True

    def release(self) -> None:
        if self.env.sched.me() is not None:
            self.env.sched.gate("unlock", path="grant-all")
            self.env.sched.emit({"k": "DUnlock"})

    def is_held(self) -> bool:
        if self.env.sched.me() is not None:
            _async_here(self.env, self.env.sched.gate("fence"), "fence")
            self.env.sched.emit({"k": "Fence", "ok": True})
        return True


def install(env: Env) -> None:
    """Patch the library for one execution.  Must be paired with uninstall()."""
    global _env
    if _env is not None:
        uninstall()
    _env = env
    import logging

    logging.getLogger("datashard").setLevel(logging.CRITICAL)      # injected faults make the library log a lot
    import datashard.data_operations as dops
    import datashard.file_lock as fl
    import datashard.file_manager as fm
    import datashard.garbage_collector as gcmod
    import datashard.lock_provider as lp
    import datashard.metadata_manager as mm
    import datashard.s3_consistency as s3c
    import datashard.snapshot_manager as sm
    import datashard.storage_backend as sb

    # storage backends
    for klass in (sb.LocalStorageBackend, sb.S3StorageBackend):
        for op in ("read_file", "open_file", "open_seekable", "write_file", "exists", "list_files", "delete_file",
                   "get_size", "get_modified_time", "read_file_with_etag", "write_file_cas"):
            if op in klass.__dict__:
                _patch(klass, op, _storage_wrapper(env, op, klass.__dict__[op]))

    # pointer resolution
    orig_cvi = mm.MetadataManager._current_version_info

    def cvi(self: Any) -> Any:
        a = env.sched.me()
        if a is None or getattr(_tls, "resolve", None) is not None:
            return orig_cvi(self)
        why = resolve_purpose(_frames(1))
        if why in ("read", "read2"):
            # the FIRST pointer resolution of a read operation is the one the read is judged by ("read"); any further one
            # inside the same read is a second look ("read2") - independent of which library function makes it
            seen = env.read_resolves.get(a.name, (-1, 0))
            n_prev = seen[1] if seen[0] == env.opi.get(a.name, 0) else 0
            why = "read" if n_prev == 0 else "read2"
            env.read_resolves[a.name] = (env.opi.get(a.name, 0), n_prev + 1)
        ctx: Dict[str, Any] = {"slot": None}
        _tls.resolve = ctx
        try:
            res = orig_cvi(self)
        except BaseException as e:  # noqa: BLE001
            _tls.resolve = None
            if ctx.get("faulted"):
                raise                      # an injected fault: its own Fault event is in the trace
            slot = ctx["slot"] or env.sched.reserve({"k": "Resolve", "a": a.name})
            slot.update({"why": why, "name": {"v": -1, "u": 0}, "ok": False, "err": type(e).__name__})
            raise
        _tls.resolve = None
        slot = ctx["slot"] or env.sched.reserve({"k": "Resolve", "a": a.name})
        slot.update({"why": why, "name": env.ids.name(res[1]) if res else {"v": -1, "u": 0}, "ok": True})
        if why == "base":
            env.new_attempt(a.name)
        return res

    _patch(mm.MetadataManager, "_current_version_info", cvi)

    # handle thread lock
    orig_mm_init = mm.MetadataManager.__init__

    def mm_init(self: Any, table_path: str, storage: Any) -> None:
        orig_mm_init(self, table_path, storage)
        a = env.sched.me()
        handle = getattr(_tls, "handle", None) or (a.handle if a else "setup")
        self._lock = CoopRLock(env, handle)
        self._verif_handle = handle

    _patch(mm.MetadataManager, "__init__", mm_init)

    # data file publish (local backend: not through StorageBackend.write_file)
    orig_wdf = dops.DataFileManager.write_data_file

    def wdf(self: Any, file_path: str, *args: Any, **kw: Any) -> Any:
        a = env.sched.me()
        if a is None:
            r = orig_wdf(self, file_path, *args, **kw)
            if env.backend == "local":
                _set_vmtime(env, self.storage, file_path)
            return r
        directive = env.sched.gate("storage", op="write_data", cls="data", path=file_path)
        f = env.register_data_file(a.name, file_path)
        if isinstance(directive, Fault) and directive.when in ("before", "async"):
            env.sched.emit({"k": "Fault", "op": "write_data", "cls": "data", "when": directive.when, "kind": directive.kind, "f": f})
            raise directive.make(f"write_data({file_path})")
        ff: Optional[_FsyncFault] = None
        if isinstance(directive, Fault) and directive.when == "sys" and env.backend == "local":
            ff = _FsyncFault(int(str(directive.kind)[-1]))
        try:
            with _Nest():
                if ff is not None:
                    with ff:
                        res = orig_wdf(self, file_path, *args, **kw)
                else:
                    res = orig_wdf(self, file_path, *args, **kw)
        except BaseException as e:  # noqa: BLE001
            if ff is not None and ff.fired is not None and not os.path.exists(self.storage._resolve_path(file_path)):
                env.sched.emit({"k": "Fault", "op": "write_data", "cls": "data", "when": "before", "kind": "fsync-" + ff.fired, "f": f})
                raise
            env.sched.emit({"k": "WriteData", "f": f, "ok": False, "err": type(e).__name__})
            raise
        if ff is not None and ff.fired == "file":
            # the flush of the data file failed and the writer went on: the file is published unflushed
            env.sched.emit({"k": "WriteData", "f": f, "ok": True, "mt": env.clock.rel(env.clock.peek_ms())})
            env.sched.emit({"k": "SysFaultSwallowed", "op": "write_data", "cls": "data", "target": "file"})
            return res
        if env.backend == "local":
            try:
                vt = env.clock.peek_ms() / 1000.0
                os.utime(self.storage._resolve_path(file_path), (vt, vt))
            except Exception:  # noqa: BLE001
                pass
        mt = env.clock.peek_ms()
        if env.data_age_ms and not env.gc_started:
            # scenario: the data file is already older than the grace period when written - only possible
            # for files written before the collection run began (the run is shorter than the grace period)
            mt -= env.data_age_ms
            try:
                os.utime(self.storage._resolve_path(file_path), (mt / 1000.0, mt / 1000.0))
            except Exception:  # noqa: BLE001
                pass
        env.sched.emit({"k": "WriteData", "f": f, "ok": True, "mt": env.clock.rel(mt)})
        if isinstance(directive, Fault) and directive.when == "after":
            env.sched.emit({"k": "Fault", "op": "write_data", "cls": "data", "when": "after", "kind": directive.kind, "f": f})
            raise directive.make(f"write_data({file_path})")
        return res

    _patch(dops.DataFileManager, "write_data_file", wdf)

    # data file reads that bypass StorageBackend on the local backend (plain open() of the resolved path)
    orig_ops = dops.DataFileManager.open_parquet_source

    def ops(self: Any, file_path: str) -> Any:
        a = env.sched.me()
        if a is None or env.backend != "local":
            helper = _helper_of(env) if (a is None and env.backend == "local") else None
            r = orig_ops(self, file_path)
            if helper is not None:
                env.sched.emit({"k": "Read", "f": env.ids.fid(file_path), "cls": "data", "ok": True, "a": helper.name})
            return r
        directive = env.sched.gate("storage", op="open_parquet", cls="data", path=file_path)
        if isinstance(directive, Fault) and directive.when in ("before", "async"):
            env.sched.emit({"k": "Fault", "op": "open_parquet", "cls": "data", "when": directive.when, "kind": directive.kind, "f": env.ids.fid(file_path)})
            raise directive.make(f"open_parquet({file_path})")
        try:
            with _Nest():
                res = orig_ops(self, file_path)
        except BaseException as e:  # noqa: BLE001
            missing = isinstance(e, FileNotFoundError)
            env.sched.emit({"k": "Exists" if missing else "Read", "f": env.ids.fid(file_path), "cls": "data", "res": False,
                            "ok": missing, "err": type(e).__name__})
            raise
        env.sched.emit({"k": "Read", "f": env.ids.fid(file_path), "cls": "data", "ok": True})
        return res

    _patch(dops.DataFileManager, "open_parquet_source", ops)

    # Transaction.commit entry and _finish_committed entry (the two boundaries that decide which
    # exception handlers apply): events CommitStart / Finish
    import datashard.transaction as txmod

    orig_commit = txmod.Transaction.commit
    orig_finish = txmod.Transaction._finish_committed

    def tx_commit(self: Any) -> Any:
        if env.sched.me() is not None and self.is_active():
            _async_here(env, env.sched.gate("commit_start"), "commit_start")
            env.sched.emit({"k": "CommitStart"})
        return orig_commit(self)

    def tx_finish(self: Any) -> None:
        if env.sched.me() is not None and self._operations:
            _async_here(env, env.sched.gate("finish"), "finish")
            env.sched.emit({"k": "Finish"})
        return orig_finish(self)

    _patch(txmod.Transaction, "commit", tx_commit)
    _patch(txmod.Transaction, "_finish_committed", tx_finish)

    # flock
    orig_try = fl.FileLock._try_acquire_once
    orig_rel = fl.FileLock.release

    def try_once(self: Any) -> bool:
        a = env.sched.me()
        if a is None:
            return orig_try(self)
        me = a.name

        def blocked() -> bool:
            h = env.flocks.get(self.lock_file)
            return h is not None and h != me and not env.allow_spin

        env.sched.gate("lock_try", path=self.lock_file, blocked=blocked)
        ok = orig_try(self)
        if ok:
            env.flocks[self.lock_file] = me
            env.flock_objs[self.lock_file] = self
        env.sched.emit({"k": "LockTry", "ok": bool(ok)})
        return ok

    def release(self: Any) -> None:
        a = env.sched.me()
        if a is None or not self._locked:
            return orig_rel(self)
        env.sched.gate("unlock", path=self.lock_file)
        orig_rel(self)
        if env.flocks.get(self.lock_file) == a.name:
            del env.flocks[self.lock_file]
        env.sched.emit({"k": "DUnlock"})

    _patch(fl.FileLock, "_try_acquire_once", try_once)
    _patch(fl.FileLock, "release", release)

    # S3 lock provider: acquisition attempts, release and the fence are spec-level steps; the individual
    # S3 requests on the lock object are scheduling points (FakeS3.gate) but belong to S3Lock.tla, not here
    orig_s3_rel = lp.S3LockProviderBase.release
    orig_s3_held = lp.S3LockProviderBase.is_held

    def s3_try(self: Any, _orig: Any = None) -> bool:
        orig_s3_try = _orig
        a = env.sched.me()
        if a is None:
            return orig_s3_try(self)
        me = a.name

        def blocked() -> bool:
            if env.allow_spin:
                return False
            o = getattr(self.s3, "objects", {}).get(self.key)
            if o is None or o.body.decode("utf-8", "replace").split(":", 1)[0] == self.lock_id:
                return False
            return env.clock.peek_ms() / 1000.0 - o.mtime <= self.lease_seconds      # held and not lapsed

        env.sched.gate("lock_try", path=self.key, blocked=blocked)
        ok = orig_s3_try(self)
        if ok:
            env.flocks[self.key] = me
        env.sched.emit({"k": "LockTry", "ok": bool(ok)})
        return ok

    def s3_release(self: Any) -> None:
        a = env.sched.me()
        if a is None:
            return orig_s3_rel(self)
        # (a holder that already learnt it lost the lock releases nothing, but the step is still taken)
        env.sched.gate("unlock", path=self.key)
        n0 = len(env.lock_deletes)
        orig_s3_rel(self)
        mine = [b for who, b in env.lock_deletes[n0:] if who == a.name]
        wiped = any(b is not None and b.split(":", 1)[0] != self.lock_id for b in mine)      # this release deleted somebody else's lock object
        if env.flocks.get(self.key) == a.name or wiped:
            env.flocks.pop(self.key, None)
        env.sched.emit({"k": "DUnlock", "wiped": bool(wiped)})

    def s3_is_held(self: Any) -> bool:
        if env.sched.me() is not None:
            _async_here(env, env.sched.gate("fence"), "fence")
        r = orig_s3_held(self)
        if env.sched.me() is not None:
            env.sched.emit({"k": "Fence", "ok": bool(r)})
        return r

    for klass in (lp.S3LockProvider, lp.S3PollingLockProvider):
        o = klass.__dict__["_try_acquire"]
        _patch(klass, "_try_acquire", (lambda o_: (lambda self: s3_try(self, o_)))(o))
    _patch(lp.S3LockProviderBase, "release", s3_release)
    _patch(lp.S3LockProviderBase, "is_held", s3_is_held)
    # the heartbeat thread is replaced by an environment step of the scheduler (Heartbeat = _renew_once)
    def _start_hb(self: Any) -> None:
        me = env.sched.me()
        self._verif_owner = me.name if me is not None else None      # whose heartbeat thread this would be
        if self not in env.heartbeats:
            env.heartbeats.append(self)

    _patch(lp.S3LockProviderBase, "_start_heartbeat", _start_hb)
    _patch(lp.S3LockProviderBase, "_stop_heartbeat_thread", lambda self: env.heartbeats.remove(self) if self in env.heartbeats else None)

    # fence (local): is_held() is a flag read; logged so the trace shows the fence was evaluated
    orig_isheld = lp.LocalLockProvider.is_held

    def is_held(self: Any) -> bool:
        if env.sched.me() is not None:
            _async_here(env, env.sched.gate("fence"), "fence")
        r = orig_isheld(self)
        if env.sched.me() is not None:
            env.sched.emit({"k": "Fence", "ok": bool(r)})
        return r

    _patch(lp.LocalLockProvider, "is_held", is_held)

    # clocks
    ft = FakeTime(env)
    for mod in (fl, lp, gcmod, s3c):
        if hasattr(mod, "time"):
            _patch(mod, "time", ft)
    _patch(_real_time, "sleep", lambda d: env.sleep(d) if env.sched.me() is not None else None)
    fdt = make_fake_datetime(env)
    for mod in (mm, sm, fm):
        _patch(mod, "datetime", fdt)
    if env.backend != "local":
        _patch(_real_datetime, "datetime", fdt)      # lock_provider does `from datetime import datetime` inside its functions
