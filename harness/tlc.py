"""TLC runner: writes cfg files, runs TLC under a timeout in a scratch dir, parses the result.

Every run copies (symlinks) the spec directory into a scratch dir so TLC's state files never
touch /verif, and never leaves anything under /tmp.
"""
from __future__ import annotations

import json
import os
import re
import shutil
import subprocess
import time
from dataclasses import dataclass, field
from typing import Any, Dict, Iterable, List, Optional, Sequence

from .common import SPEC, MachineryError, scratch_dir

JAR = "/opt/veriftools/tla/tla2tools.jar"
DEPS = "/opt/veriftools/tla/CommunityModules-deps.jar"


@dataclass
class TLCResult:
    label: str
    mode: str
    ok: bool                      # finished with no violation and no error
    violated: List[str]           # names of violated invariants/properties
    generated: int
    distinct: int
    depth: int
    wall_s: float
    stdout: str
    error_trace: str = ""
    coverage: Dict[str, int] = field(default_factory=dict)   # action name -> times taken
    printed: List[str] = field(default_factory=list)         # PrintT output lines (raw)
    timed_out: bool = False
    exit_code: int = 0


def _tla_value(v: Any) -> str:
    """Python value -> TLA+ literal for cfg files / generated modules."""
    if isinstance(v, bool):
        return "TRUE" if v else "FALSE"
    if isinstance(v, int):
        return str(v)
    if isinstance(v, str):
        return json.dumps(v)
    if isinstance(v, (set, frozenset)):
        return "{" + ", ".join(sorted(_tla_value(x) for x in v)) + "}"
    if isinstance(v, (list, tuple)):
        return "<<" + ", ".join(_tla_value(x) for x in v) + ">>"
    if isinstance(v, dict):
        if not v:
            return "<<>>"
        return "[" + ", ".join(f"{k} |-> {_tla_value(x)}" for k, x in v.items()) + "]"
    if isinstance(v, Raw):
        return v.text
    raise TypeError(f"cannot render {v!r} as TLA+")


class Raw:
    """A TLA+ expression passed through verbatim."""

    def __init__(self, text: str) -> None:
        self.text = text


def tla(v: Any) -> str:
    return _tla_value(v)


def make_cfg(
    spec: Optional[str] = None,
    init: Optional[str] = None,
    next_: Optional[str] = None,
    constants: Optional[Dict[str, Any]] = None,
    invariants: Sequence[str] = (),
    properties: Sequence[str] = (),
    constraints: Sequence[str] = (),
    action_constraints: Sequence[str] = (),
    view: Optional[str] = None,
    postcondition: Optional[str] = None,
    check_deadlock: Optional[bool] = None,
    symmetry: Optional[str] = None,
) -> str:
    out: List[str] = []
    if spec:
        out.append(f"SPECIFICATION {spec}")
    if init:
        out.append(f"INIT {init}")
    if next_:
        out.append(f"NEXT {next_}")
    if constants:
        out.append("CONSTANTS")
        for k, v in constants.items():
            if isinstance(v, Raw) and v.text.startswith("<-"):
                out.append(f"  {k} {v.text}")
            else:
                out.append(f"  {k} = {_tla_value(v)}")
    for i in invariants:
        out.append(f"INVARIANT {i}")
    for p in properties:
        out.append(f"PROPERTY {p}")
    for c in constraints:
        out.append(f"CONSTRAINT {c}")
    for c in action_constraints:
        out.append(f"ACTION_CONSTRAINT {c}")
    if view:
        out.append(f"VIEW {view}")
    if symmetry:
        out.append(f"SYMMETRY {symmetry}")
    if postcondition:
        out.append(f"POSTCONDITION {postcondition}")
    if check_deadlock is not None:
        out.append(f"CHECK_DEADLOCK {'TRUE' if check_deadlock else 'FALSE'}")
    return "\n".join(out) + "\n"


_RE_STATES = re.compile(r"(\d[\d,]*) states generated, (\d[\d,]*) distinct states found")
_RE_DEPTH = re.compile(r"The depth of the complete state graph search is (\d+)")
_RE_INV = re.compile(r"Error: Invariant (\S+) is violated")
_RE_PROP = re.compile(r"Error: (?:Action property|Temporal property|Property) (\S+)? ?.*(?:violated|is violated)")
_RE_COV = re.compile(r"^<(\w+) line (\d+), col \d+ to line \d+, col \d+ of module (\w+)(?: \([\d ]+\))?>: (\d+):(\d+)", re.M)


def workdir_with_specs(extra_files: Optional[Dict[str, str]] = None) -> str:
    """Scratch directory containing symlinks to every spec file plus generated files."""
    wd = scratch_dir("tlc")
    for fn in os.listdir(SPEC):
        if fn.endswith((".tla", ".cfg", ".json")):
            os.symlink(os.path.join(SPEC, fn), os.path.join(wd, fn))
    for name, text in (extra_files or {}).items():
        p = os.path.join(wd, name)
        if os.path.islink(p):
            os.unlink(p)
        with open(p, "w") as f:
            f.write(text)
    return wd


def run_tlc(
    module: str,
    cfg_text: Optional[str] = None,
    cfg_name: Optional[str] = None,
    *,
    label: str = "",
    workers: Any = "auto",
    timeout_s: int = 600,
    simulate: Optional[str] = None,      # e.g. "num=1000" (with depth=)
    depth: Optional[int] = None,
    coverage: bool = False,
    extra_files: Optional[Dict[str, str]] = None,
    extra_args: Sequence[str] = (),
    env: Optional[Dict[str, str]] = None,
    jvm_props: Sequence[str] = (),
    deadlock: bool = True,
    seed: Optional[int] = None,
    keep_wd: bool = False,
    wd: Optional[str] = None,
    heap: str = "4g",
) -> TLCResult:
    files = dict(extra_files or {})
    cfg_file = cfg_name or f"{module}.cfg"
    if cfg_text is not None:
        cfg_file = f"_run_{module}.cfg"
        files[cfg_file] = cfg_text
    own_wd = wd is None
    if wd is None:
        wd = workdir_with_specs(files)
    else:
        for name, text in files.items():
            with open(os.path.join(wd, name), "w") as f:
                f.write(text)
    meta = os.path.join(wd, "_meta")
    jtmp = os.path.join(wd, "_jtmp")          # TLC unpacks its standard modules into java.io.tmpdir and never cleans up
    os.makedirs(jtmp, exist_ok=True)
    cmd = ["java", "-XX:+UseParallelGC", f"-Xmx{heap}", f"-Djava.io.tmpdir={jtmp}"]
    cmd += [f"-D{p}" for p in jvm_props if not p.startswith("java.io.tmpdir")]
    cmd += ["-cp", f"{JAR}:{DEPS}", "tlc2.TLC", "-config", cfg_file, "-metadir", meta, "-noGenerateSpecTE"]
    cmd += ["-workers", str(workers)]
    if not deadlock:
        cmd += ["-deadlock"]
    if simulate is not None:
        cmd += ["-simulate", simulate]
    if depth is not None:
        cmd += ["-depth", str(depth)]
    if coverage:
        cmd += ["-coverage", "1"]
    if seed is not None:
        cmd += ["-seed", str(seed)]
    cmd += list(extra_args)
    cmd += [module]
    e = dict(os.environ)
    e.pop("JAVA_TOOL_OPTIONS", None)
    if env:
        e.update(env)
    t0 = time.time()
    timed_out = False
    try:
        p = subprocess.run(cmd, cwd=wd, env=e, stdout=subprocess.PIPE, stderr=subprocess.STDOUT, timeout=timeout_s, text=True)
        out = p.stdout
        code = p.returncode
    except subprocess.TimeoutExpired as ex:
        out = (ex.stdout.decode() if isinstance(ex.stdout, bytes) else (ex.stdout or ""))
        timed_out = True
        code = -9
        subprocess.run(["pkill", "-f", f"metadir {meta}"], check=False)
    wall = time.time() - t0
    gen = dist = 0
    for m in _RE_STATES.finditer(out):
        gen, dist = int(m.group(1).replace(",", "")), int(m.group(2).replace(",", ""))
    if simulate is not None:
        m2 = re.search(r"(\d[\d,]*) states checked", out)
        if m2:
            gen = dist = int(m2.group(1).replace(",", ""))
    dm = _RE_DEPTH.search(out)
    depth_v = int(dm.group(1)) if dm else 0
    violated = _RE_INV.findall(out)
    if "is violated" in out and not violated:
        for line in out.splitlines():
            if "is violated" in line and line.startswith("Error:"):
                violated.append(line.split("Error:")[1].strip())
    if "Error: Temporal properties were violated" in out or re.search(r"Error: Temporal property \S+ was violated", out):
        violated.append("Liveness")
        violated += re.findall(r"Error: Temporal property (\S+) was violated", out)
    if "Error: Deadlock reached" in out:
        violated.append("Deadlock")
    if "Error: Postcondition" in out and "is false" in out:
        violated.append("POSTCONDITION")
    if "Assumption" in out and "is false" in out:
        violated.append("Assumption")
    error_trace = ""
    if violated or "Error:" in out:
        i = out.find("Error:")
        error_trace = out[i:] if i >= 0 else ""
    cov: Dict[str, int] = {}
    if coverage:
        for m in _RE_COV.finditer(out):
            cov[m.group(1)] = cov.get(m.group(1), 0) + int(m.group(4))
    printed = [ln for ln in out.splitlines() if ln.startswith(("<<", "[", "\"", "{")) and not ln.startswith("<<<")]
    fatal = (not violated) and (code not in (0,) and not timed_out)
    finished = ("Model checking completed" in out) or ("Finished in" in out) or (simulate is not None and timed_out is False and code == 0)
    res = TLCResult(
        label=label or module, mode=("simulate" if simulate else "exhaustive"),
        ok=(not violated and not fatal and not timed_out and finished),
        violated=violated, generated=gen, distinct=dist, depth=depth_v, wall_s=wall, stdout=out,
        error_trace=error_trace, coverage=cov, printed=printed, timed_out=timed_out, exit_code=code,
    )
    if own_wd and not keep_wd:
        shutil.rmtree(wd, ignore_errors=True)
    elif keep_wd:
        res.stdout += f"\n[wd kept: {wd}]"
    if fatal and not violated:
        i = out.find("Error")
        raise MachineryError(f"TLC failed on {module} ({label}): exit {code}\n{out[i:i + 2500] if i >= 0 else ''}\n...\n{out[-1500:]}")
    return res


def sany(module_file: str) -> None:
    p = subprocess.run(
        ["java", "-cp", f"{JAR}:{DEPS}", "tla2sany.SANY", os.path.basename(module_file)],
        cwd=os.path.dirname(module_file), stdout=subprocess.PIPE, stderr=subprocess.STDOUT, text=True,
    )
    if p.returncode != 0 or "Semantic errors" in p.stdout or "Parse Error" in p.stdout or "Fatal errors" in p.stdout:
        raise MachineryError(f"SANY rejected {module_file}:\n{p.stdout[-2000:]}")


# ------------------------------------------------------------------------------------------------
# TLA+ value parsing (for PrintT / simulation dumps): a small recursive-descent parser.
# ------------------------------------------------------------------------------------------------

class _P:
    def __init__(self, s: str) -> None:
        self.s = s
        self.i = 0

    def ws(self) -> None:
        while self.i < len(self.s) and self.s[self.i] in " \t\r\n":
            self.i += 1

    def peek(self, n: int = 1) -> str:
        return self.s[self.i:self.i + n]

    def expect(self, t: str) -> None:
        self.ws()
        if not self.s.startswith(t, self.i):
            raise ValueError(f"expected {t!r} at {self.i}: {self.s[self.i:self.i+40]!r}")
        self.i += len(t)

    def value(self) -> Any:
        self.ws()
        c = self.peek()
        if self.peek(2) == "<<":
            self.i += 2
            items = self.seq(">>")
            return list(items)
        if c == "{":
            self.i += 1
            items = self.seq("}")
            return {"__set__": items}
        if c == "[":
            self.i += 1
            return self.record_or_fn()
        if c == "(":
            self.i += 1
            return self.fn_paren()
        if c == '"':
            j = self.i + 1
            buf = []
            while self.s[j] != '"':
                if self.s[j] == "\\":
                    j += 1
                buf.append(self.s[j])
                j += 1
            self.i = j + 1
            return "".join(buf)
        m = re.compile(r"-?\d+").match(self.s, self.i)
        if m:
            self.i = m.end()
            return int(m.group(0))
        m = re.compile(r"[A-Za-z_][A-Za-z0-9_]*").match(self.s, self.i)
        if m:
            self.i = m.end()
            w = m.group(0)
            if w == "TRUE":
                return True
            if w == "FALSE":
                return False
            return {"__mv__": w}
        raise ValueError(f"cannot parse at {self.i}: {self.s[self.i:self.i+40]!r}")

    def seq(self, close: str) -> List[Any]:
        items: List[Any] = []
        self.ws()
        if self.s.startswith(close, self.i):
            self.i += len(close)
            return items
        while True:
            items.append(self.value())
            self.ws()
            if self.s.startswith(",", self.i):
                self.i += 1
                continue
            self.expect(close)
            return items

    def record_or_fn(self) -> Any:
        out: Dict[str, Any] = {}
        self.ws()
        if self.peek() == "]":
            self.i += 1
            return out
        while True:
            self.ws()
            m = re.compile(r"[A-Za-z_][A-Za-z0-9_]*").match(self.s, self.i)
            if not m:
                raise ValueError(f"record field expected at {self.i}: {self.s[self.i:self.i+40]!r}")
            key = m.group(0)
            self.i = m.end()
            self.expect("|->")
            out[key] = self.value()
            self.ws()
            if self.peek() == ",":
                self.i += 1
                continue
            self.expect("]")
            return out

    def fn_paren(self) -> Any:
        # (k1 :> v1 @@ k2 :> v2)
        out: List[Any] = []
        while True:
            k = self.value()
            self.expect(":>")
            v = self.value()
            out.append([k, v])
            self.ws()
            if self.s.startswith("@@", self.i):
                self.i += 2
                continue
            self.expect(")")
            return {"__fn__": out}


def parse_tla(text: str) -> Any:
    p = _P(text)
    v = p.value()
    return v


def plain(v: Any) -> Any:
    """Convert parsed TLA+ values to plain python (sets -> sorted lists, functions -> dicts)."""
    if isinstance(v, dict):
        if "__set__" in v:
            items = [plain(x) for x in v["__set__"]]
            try:
                return sorted(items, key=lambda x: json.dumps(x, sort_keys=True, default=str))
            except TypeError:
                return items
        if "__fn__" in v:
            return {json.dumps(plain(k)) if not isinstance(plain(k), (str, int)) else plain(k): plain(x) for k, x in v["__fn__"]}
        if "__mv__" in v:
            return v["__mv__"]
        return {k: plain(x) for k, x in v.items()}
    if isinstance(v, list):
        return [plain(x) for x in v]
    return v


def split_top_level(text: str) -> List[str]:
    """Split TLC stdout into top-level bracket-balanced value strings (robust to interleaved workers)."""
    out: List[str] = []
    depth = 0
    start = None
    i = 0
    instr = False
    while i < len(text):
        c = text[i]
        if instr:
            if c == "\\":
                i += 1
            elif c == '"':
                instr = False
        elif c == '"':
            instr = True
        elif c in "[{(" or text.startswith("<<", i):
            if depth == 0:
                start = i
            depth += 1
            if c == "<":
                i += 1
        elif c in "]})" or text.startswith(">>", i):
            depth -= 1
            if c == ">":
                i += 1
            if depth == 0 and start is not None:
                out.append(text[start:i + 1])
                start = None
            if depth < 0:
                depth = 0
        i += 1
    return out
