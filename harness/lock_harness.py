"""C19 binding: the real lock code under a deterministic scheduler, its traces validated by TLC.

S3 part
    2-3 real `S3LockProvider` instances on one in-memory S3 (`LockFakeS3` = harness/fakes3.FakeS3 plus
    If-Match on DeleteObject) under the baton scheduler (harness/sched.py) with a virtual clock:
      * every S3 request is a gate (FakeS3.gate) and one event (op, condition, canonical etag ids, status, body owner,
        LastModified as virtual ms),
      * every clock read that decides something (`time.time()` in acquire, `datetime.now()` in the takeover), every sleep,
        every API call / return is a gate / an event,
      * the heartbeat thread is replaced by the environment step `hb:<client>` (= one pass of _heartbeat_loop),
        the clock advances by environment steps `tick:<ms>` and by sleeps.
    One scheduler decision = one action of spec/S3Lock.tla.  `validate_s3` checks batches of traces with
    spec/Trace_S3Lock.tla (Strict, then reference-only for the ones the transcription does not explain).

Local part
    (i)  threads with distinct `FileLock` instances under the same scheduler, os.open / fcntl.flock / os.close /
         os.unlink as seen by datashard.file_lock wrapped into gates+events (inode numbers from fstat), virtual
         time.monotonic; validated with spec/Trace_FLock.tla;
    (ii) real processes (`stress_*`): subprocesses running `STRESS_CHILD` log from inside the critical section; the
         merged log is validated with spec/Trace_FLock.tla (StressSpec).
"""
from __future__ import annotations

import datetime as _real_datetime
import json
import os
import shutil
import signal
import subprocess
import sys
import time as _real_time
from typing import Any, Callable, Dict, List, Optional, Sequence, Tuple

from . import tlc
from .common import MachineryError, scratch_dir
from .fakes3 import FakeS3, client_error, etag_of
from .sched import Actor, Clock, Deadlock, ListPolicy, Policy, RandomPolicy, Scheduler

_RealDT = _real_datetime.datetime
NOID = {"owner": "none", "ctr": 0}


# =================================================================================================
# S3 lock
# =================================================================================================

class LockFakeS3(FakeS3):
    """FakeS3 + conditional DELETE + one spec-level event per request on the lock object."""

    def __init__(self, env: "S3Env") -> None:
        super().__init__(clock=lambda: env.clock.peek_ms() / 1000.0)
        self.env = env
        self.gate = lambda op, kw: env.sched.gate("s3", op=op)

    def delete_object(self, **kw: Any) -> Dict[str, Any]:
        def effect(entry: Dict[str, Any]) -> Dict[str, Any]:
            im = kw.get("IfMatch")
            cur = self.objects.get(kw["Key"])
            if im is not None and cur is not None and im != "*" and cur.etag != im:
                raise client_error("PreconditionFailed", "At least one of the pre-conditions you specified did not hold", 412, "delete_object")
            self.last_deleted = self.objects.pop(kw["Key"], None)
            entry["existed"] = self.last_deleted is not None
            return {"ResponseMetadata": {"HTTPStatusCode": 204}}

        self.last_deleted = None
        return self._request("delete_object", kw, effect)


def _status(e: BaseException) -> str:
    r = getattr(e, "response", None)
    code = str(r.get("Error", {}).get("Code", "")) if isinstance(r, dict) else type(e).__name__
    return {"PreconditionFailed": "412", "NoSuchKey": "404", "404": "404"}.get(code, code)


class S3Env:
    """One execution: scheduler, virtual clock, fake S3, providers, event log."""

    KEY = "t/.locks/commit.lock"

    def __init__(self, clients: Sequence[str], lease_s: int = 60, timeout_s: float = 30.0004, sleep_ms: Sequence[int] = (500, 500, 10_000),
                 provider: str = "cas") -> None:
        import datashard.lock_provider as lp

        self.clock = Clock("coarse")
        self.sched = Scheduler(self.clock)
        self.sched.max_steps = 4000
        self.fake = LockFakeS3(self)
        self.lease_s, self.timeout_s = lease_s, timeout_s
        self.sleep_ms = list(sleep_ms)           # virtual duration of the 1st, 2nd, ... sleep of an actor (last repeats)
        self.nsleeps: Dict[str, int] = {}
        self.cur_env: Optional[str] = None       # client on whose behalf an environment step runs (heartbeat)
        self.phase: Dict[str, str] = {}          # actor -> "call" right after acquire() was entered
        self.hb: List[Any] = []                  # providers whose heartbeat thread would be running
        klass = lp.S3LockProvider if provider == "cas" else lp.S3PollingLockProvider
        self.prov: Dict[str, Any] = {c: klass(self.fake, "b", self.KEY, timeout=timeout_s, lease_seconds=lease_s) for c in clients}
        self.name_of = {p.lock_id: c for c, p in self.prov.items()}
        self.etag_ids: Dict[str, Dict[str, Any]] = {}

    # ---- identity of the running client ---------------------------------------------------------
    def who(self) -> Optional[str]:
        a = self.sched.me()
        return a.name if a is not None else self.cur_env

    def now_rel(self) -> int:
        return self.clock.rel(self.clock.peek_ms())

    def emit(self, ev: Dict[str, Any]) -> None:
        w = ev.pop("a", None) or self.who()
        if w is None:
            return
        base = {"a": w, "via": "", "cond": "none", "im": NOID, "body": NOID, "etag": NOID, "status": "ok", "res": "", "mod": 0,
                "flag": bool(self.prov[w].is_locked) if w in self.prov else False, "now": self.now_rel()}
        base.update(ev)
        self.sched.emit(base)

    # ---- canonical ids ----------------------------------------------------------------------------
    def body_id(self, body: Any) -> Dict[str, Any]:
        if body is None:
            return dict(NOID)
        if hasattr(body, "read"):
            raise MachineryError("streamed lock body")
        text = body.decode("utf-8", "replace") if isinstance(body, (bytes, bytearray)) else str(body)
        head, _, tail = text.partition(":")
        ident = {"owner": self.name_of.get(head, "?"), "ctr": int(tail) if tail.isdigit() else 0}
        self.etag_ids[etag_of(text.encode("utf-8"))] = ident
        return ident

    def etag_id(self, etag: Optional[str]) -> Dict[str, Any]:
        if etag is None:
            return dict(NOID)
        return self.etag_ids.get(etag, {"owner": "?", "ctr": -1})


def _via() -> str:
    f = sys._getframe(2)
    n = 0
    while f is not None and n < 12:
        if os.path.basename(f.f_code.co_filename) == "lock_provider.py":
            name = f.f_code.co_name
            m = {"_try_takeover_expired": "takeover", "_try_acquire": "create", "_renew_once": "renew", "is_held": "is_held",
                 "release": "release", "acquire": "acquire", "_check_and_break_expired_lock": "break"}.get(name)
            if m:
                return m
        f = f.f_back
        n += 1
    return "other"


class _S3Client:
    """What the providers get as `s3_client`: forwards to the fake and logs one event per request."""

    def __init__(self, env: S3Env) -> None:
        self.env = env

    def _call(self, op: str, kw: Dict[str, Any]) -> Tuple[Any, str, Optional[BaseException]]:
        try:
            return getattr(self.env.fake, op)(**kw), "ok", None
        except BaseException as e:  # noqa: BLE001 - the outcome of the request
            if not hasattr(e, "response"):
                raise
            return None, _status(e), e

    def put_object(self, **kw: Any) -> Any:
        env, via = self.env, _via()
        body = env.body_id(kw.get("Body"))
        cond = "inm" if kw.get("IfNoneMatch") is not None else ("im" if kw.get("IfMatch") is not None else "none")
        im = env.etag_id(kw.get("IfMatch")) if cond == "im" else dict(NOID)
        r, st, err = self._call("put_object", kw)
        env.emit({"k": "Put", "via": via, "cond": cond, "im": im, "body": body, "status": st})
        if err is not None:
            raise err
        return r

    def head_object(self, **kw: Any) -> Any:
        env, via = self.env, _via()
        r, st, err = self._call("head_object", kw)
        ev: Dict[str, Any] = {"k": "Head", "via": via, "status": st}
        if err is None:
            o = env.fake.objects.get(kw["Key"])
            env.body_id(o.body if o else None)
            ev["etag"] = env.etag_id(r.get("ETag"))
            ev["mod"] = env.clock.rel(int(round(r["LastModified"].timestamp() * 1000)))
        env.emit(ev)
        if err is not None:
            raise err
        return r

    def get_object(self, **kw: Any) -> Any:
        env, via = self.env, _via()
        r, st, err = self._call("get_object", kw)
        ev: Dict[str, Any] = {"k": "Get", "via": via, "status": st}
        if err is None:
            o = env.fake.objects.get(kw["Key"])
            ev["body"] = env.body_id(o.body if o else None)
        env.emit(ev)
        if err is not None:
            raise err
        return r

    def delete_object(self, **kw: Any) -> Any:
        env, via = self.env, _via()
        cond = "im" if kw.get("IfMatch") is not None else "none"
        im = env.etag_id(kw.get("IfMatch")) if cond == "im" else dict(NOID)
        r, st, err = self._call("delete_object", kw)
        gone = env.fake.last_deleted if err is None else None          # the object this request removed
        env.emit({"k": "Delete", "via": via, "cond": cond, "im": im, "status": st, "body": env.body_id(gone.body if gone else None)})
        if err is not None:
            raise err
        return r

    def __getattr__(self, n: str) -> Any:
        return getattr(self.env.fake, n)


class _FakeTimeS3:
    """`time` as seen by datashard.lock_provider."""

    def __init__(self, env: S3Env) -> None:
        self.env = env

    def time(self) -> float:
        env = self.env
        a = env.sched.me()
        if a is not None and sys._getframe(1).f_code.co_name == "acquire":
            env.sched.gate("clock")
            first = env.phase.get(a.name) == "call"
            env.phase[a.name] = "loop"
            env.emit({"k": "AcqStart" if first else "Deadline", "via": "acquire"})
        return env.clock.peek_ms() / 1000.0

    def monotonic(self) -> float:
        return self.env.clock.peek_ms() / 1000.0

    def sleep(self, d: float) -> None:
        env = self.env
        a = env.sched.me()
        if a is None:
            return
        via = _via()
        env.sched.gate("sleep", dur=d)
        env.emit({"k": "Sleep", "via": via, "res": f"{d:.3f}"})
        i = env.nsleeps.get(a.name, 0)
        env.nsleeps[a.name] = i + 1
        ms = env.sleep_ms[min(i, len(env.sleep_ms) - 1)] if env.sleep_ms else 0
        if ms > 0:
            env.clock.advance(ms)
            env.emit({"k": "Tick", "a": "env"})

    def __getattr__(self, n: str) -> Any:
        return getattr(_real_time, n)


class _FixedRandom:
    def uniform(self, a: float, b: float) -> float:
        return (a + b) / 2.0

    def __getattr__(self, n: str) -> Any:
        import random

        return getattr(random, n)


def _make_fake_datetime(env: S3Env) -> Any:
    class _Meta(type):
        def __instancecheck__(cls, inst: Any) -> bool:
            return isinstance(inst, _RealDT)

    class FakeDateTime(_RealDT, metaclass=_Meta):
        @classmethod
        def now(cls, tz: Any = None) -> Any:  # type: ignore[override]
            f = sys._getframe(1)
            if env.sched.me() is not None and os.path.basename(f.f_code.co_filename) == "lock_provider.py":
                env.sched.gate("age")
                env.emit({"k": "Age", "via": _via_here(f)})
            return _RealDT.fromtimestamp(env.clock.peek_ms() / 1000.0, tz)

    return FakeDateTime


def _via_here(f: Any) -> str:
    return {"_try_takeover_expired": "takeover", "_check_and_break_expired_lock": "break"}.get(f.f_code.co_name, "other")


_patches: List[Tuple[Any, str, Any]] = []


def _patch(obj: Any, name: str, new: Any) -> None:
    _patches.append((obj, name, getattr(obj, name)))
    setattr(obj, name, new)


def _unpatch() -> None:
    while _patches:
        obj, name, old = _patches.pop()
        setattr(obj, name, old)


def _install_s3(env: S3Env) -> None:
    import logging

    import datashard.lock_provider as lp

    logging.getLogger("datashard").setLevel(logging.CRITICAL)
    _patch(lp, "time", _FakeTimeS3(env))
    _patch(lp, "random", _FixedRandom())
    _patch(_real_datetime, "datetime", _make_fake_datetime(env))   # lock_provider imports datetime inside its functions
    _patch(lp.S3LockProviderBase, "_start_heartbeat", lambda self: env.hb.append(self) if self not in env.hb else None)
    _patch(lp.S3LockProviderBase, "_stop_heartbeat_thread", lambda self: env.hb.remove(self) if self in env.hb else None)
    cl = _S3Client(env)
    for p in env.prov.values():
        p.s3 = cl


class _Hooks(dict):
    """Environment steps by name: hb:<client>, tick:<ms>."""

    def __init__(self, env: S3Env) -> None:
        super().__init__()
        self.env = env

    def __missing__(self, name: str) -> Callable[[], None]:
        env = self.env
        kind, _, arg = name.partition(":")
        if kind == "tick":
            def tick() -> None:
                env.clock.advance(int(arg))
                env.emit({"k": "Tick", "a": "env"})
            return tick
        if kind == "hb":
            def hb() -> None:
                p = env.prov[arg]
                if p not in env.hb or not p.is_locked:      # _heartbeat_loop: thread not running / `if not self.is_locked: break`
                    return
                n0 = len(env.sched.trace)
                env.cur_env = arg
                try:
                    p._renew_once()
                    if len(env.sched.trace) > n0:
                        env.emit({"k": "RenewRet"})
                finally:
                    env.cur_env = None
            return hb
        raise KeyError(name)


def _s3_actor(env: S3Env, name: str, program: Sequence[str]) -> Callable[[], Any]:
    def body() -> None:
        p = env.prov[name]
        holding = False
        for op in program:
            if op == "acquire":
                env.phase[name] = "call"
                try:
                    r = p.acquire()
                    holding = bool(r)
                    env.emit({"k": "AcqRet", "res": "ok" if r else "false"})
                except TimeoutError:
                    holding = False
                    env.emit({"k": "AcqRet", "res": "timeout"})
            elif not holding:
                continue                     # the program of a client that failed to acquire skips to its next acquire
            elif op == "is_held":
                env.sched.gate("call", op=op)
                env.emit({"k": "IsHeldCall"})
                r = p.is_held()
                env.emit({"k": "IsHeldRet", "res": bool(r)})
            elif op == "release":
                env.sched.gate("call", op=op)
                env.emit({"k": "RelCall"})
                p.release()
                holding = False
                env.emit({"k": "RelRet"})
            else:
                raise MachineryError(f"unknown program step {op}")

    return body


class ReplayPolicy(ListPolicy):
    """ListPolicy whose fallback (schedule exhausted) lets sleeps advance the clock, so that every execution ends."""

    def __init__(self, schedule: Sequence[Any], env: S3Env, tail_sleep_ms: Sequence[int] = (10_000,)) -> None:
        super().__init__(schedule)
        self.env = env
        self.tail = list(tail_sleep_ms)

    def choose(self, s: Scheduler, enabled: List[Actor]) -> Optional[Tuple[Any, ...]]:
        if self.i >= len(self.schedule) and self.env.sleep_ms != self.tail:
            self.env.sleep_ms = self.tail
            self.env.nsleeps = {}
        return super().choose(s, enabled)


DEFAULT_PROGRAM = ("acquire", "is_held", "release")


def run_s3(programs: Dict[str, Sequence[str]], schedule: Sequence[Any], *, lease_s: int = 60, timeout_s: float = 30.0004,
           sleep_ms: Sequence[int] = (500, 500, 10_000), random_policy: Optional[Tuple[Any, float, Dict[str, float]]] = None,
           provider: str = "cas") -> Dict[str, Any]:
    """One execution of the real providers.  `schedule`: client names (one gate each) / ["env", "hb:A"] / ["env", "tick:61000"]."""
    env = S3Env(sorted(programs), lease_s, timeout_s, sleep_ms, provider)
    _install_s3(env)
    err = None
    try:
        s = env.sched
        s.env_hooks = _Hooks(env)
        for c in sorted(programs):
            s.spawn(c, _s3_actor(env, c, programs[c]), role="client")
        for c in sorted(programs):           # pre-roll: every actor up to its first gate (no event happens before it)
            s.step(s.actors[c])
        sched = [tuple(d) if isinstance(d, list) else d for d in schedule]
        pol: Policy
        if random_policy is not None:
            r, switch_p, env_p = random_policy
            pol = _BoundedRandom(r, switch_p, env_p, env)
        else:
            pol = ReplayPolicy(sched, env)
        try:
            s.run(pol)
        except Deadlock as e:
            err = f"deadlock: {e}"
        for a in s.actors.values():
            if a.error is not None:
                err = (err or "") + f" actor {a.name} died: {type(a.error).__name__}: {a.error}\n{getattr(a, 'tb', '')}"
        return {"events": s.trace, "decisions": [list(d) for d in s.decisions], "harness_error": err,
                "programs": {c: list(p) for c, p in programs.items()}, "lease_s": lease_s, "timeout_s": timeout_s,
                "final": {c: bool(p.is_locked) for c, p in env.prov.items()}}
    finally:
        _unpatch()


class _BoundedRandom(RandomPolicy):
    """Seeded random walk; after `budget` decisions it stops injecting environment steps so the run ends."""

    def __init__(self, rng: Any, switch_p: float, env_p: Dict[str, float], env: S3Env, budget: int = 120) -> None:
        super().__init__(rng, switch_p, env_p)
        self.env = env
        self.budget = budget

    def choose(self, s: Scheduler, enabled: List[Actor]) -> Optional[Tuple[Any, ...]]:
        self.budget -= 1
        if self.budget == 0:
            self.env_p = {}
            self.env.sleep_ms = [10_000]
        return super().choose(s, enabled)


def probe_s3_flags() -> Dict[str, bool]:
    """Which protocol does the code under test speak?  EtagPerWrite: a renewal changes the ETag;
    AtomicRelease: the release DELETE is conditional.  (Selects the constants for trace validation, so a repaired
    library is validated against the repaired model.)"""
    t = run_s3({"A": ["acquire", "release"]}, ["A", "A", ["env", "hb:A"]])
    puts = [e for e in t["events"] if e["k"] == "Put" and e["status"] == "ok"]
    dels = [e for e in t["events"] if e["k"] == "Delete"]
    if len(puts) < 2 or not dels:
        raise MachineryError(f"flag probe: unexpected solo run {[e['k'] for e in t['events']]}")
    return {"EtagPerWrite": puts[0]["body"] != puts[1]["body"], "AtomicRelease": dels[0]["cond"] == "im"}


# ---- schedules ---------------------------------------------------------------------------------------

MODEL_STEP = {"StartAcquire", "TryCreate", "Head", "AgeCheck", "TakeoverPut", "DeadlineCheck", "Sleep", "IsHeldStart", "IsHeldGet",
              "IsHeldSleep", "ReleaseStart", "ReleaseGet", "ReleaseDelete"}


def schedule_from_hist(hist: Sequence[Sequence[str]], unit_ms: int) -> Tuple[Dict[str, List[str]], List[Any]]:
    """A behaviour of MC_S3Lock (its `hist`) -> per-client programs + scheduler decisions (1 model step = 1 decision)."""
    programs: Dict[str, List[str]] = {}
    sched: List[Any] = []
    for who, what in hist:
        if what == "Tick":
            sched.append(["env", f"tick:{unit_ms}"])
        elif what == "Renew":
            sched.append(["env", f"hb:{who}"])
        elif what in MODEL_STEP:
            sched.append(who)
            api = {"StartAcquire": "acquire", "IsHeldStart": "is_held", "ReleaseStart": "release"}.get(what)
            if api:
                programs.setdefault(who, []).append(api)
        else:
            raise MachineryError(f"unknown model step {what}")
    return programs, sched


def systematic_s3(clients: Sequence[str], quick: bool) -> List[Tuple[Dict[str, Sequence[str]], List[Any]]]:
    """p runs i gates; environment insertion e1; q runs j gates; environment insertion e2; then p finishes before q, and q before p.
    i ranges over every gate of every method of p's program (acquire, takeover, is_held, release), j over q's."""
    lapse = ["env", "tick:61000"]
    edge = ["env", "tick:60000"]             # age == lease exactly: not lapsed yet
    envs1: List[List[Any]] = [[], [lapse], [edge]]
    out: List[Tuple[Dict[str, Sequence[str]], List[Any]]] = []
    progs = {c: DEFAULT_PROGRAM for c in clients}
    for p in clients:
        for q in clients:
            if q == p:
                continue
            hbp, hbq = ["env", f"hb:{p}"], ["env", f"hb:{q}"]
            envs2: List[List[Any]] = [[], [hbp], [lapse], [lapse, hbp], [hbp, lapse], [hbq]]
            for i in range(0, 8):
                for e1 in envs1 + [[lapse, hbp]]:
                    for j in range(0, 8 if quick else 14):
                        for e2 in envs2:
                            if quick and e1 and e2 and (i + j) % 2:
                                continue
                            out.append((progs, [p] * i + e1 + [q] * j + e2 + [p] * 60 + [q] * 60))
                            if j > 0:
                                out.append((progs, [p] * i + e1 + [q] * j + e2 + [q] * 60 + [p] * 60))
    return out


def validate_s3(traces: Sequence[Dict[str, Any]], flags: Dict[str, bool], strict: bool, clients: Sequence[str],
                lease_ms: int = 60_000, timeout_ms: int = 30_001, timeout_s: int = 600) -> "Verdicts":
    """timeout_ms = ceil(provider timeout in ms): the providers are given a timeout with a fractional millisecond
    (30.0004 s) so that float rounding in `time.time() - start >= timeout` cannot matter on the integer ms clock."""
    wd = tlc.workdir_with_specs()
    tf = os.path.join(wd, "traces.json")
    with open(tf, "w") as f:
        json.dump({"traces": [{"events": t["events"]} for t in traces]}, f)
    cfg = tlc.make_cfg(spec="TraceSpec", constants={"Clients": set(clients), "Lease": lease_ms, "Timeout": timeout_ms, "MaxNow": 2_000_000_000,
                                                    "MaxRounds": 1000, "EtagPerWrite": flags["EtagPerWrite"], "AtomicRelease": flags["AtomicRelease"],
                                                    "Strict": strict},
                       constraints=["Progress"], postcondition="Verdicts", check_deadlock=False)
    res = tlc.run_tlc("Trace_S3Lock", cfg, wd=wd, workers=1, timeout_s=timeout_s, env={"TRACE_FILE": tf},
                      label=f"Trace_S3Lock[{'strict' if strict else 'reference'}] x{len(traces)}")
    shutil.rmtree(wd, ignore_errors=True)
    return _verdicts(res, [len(t["events"]) for t in traces])


class Verdicts:
    def __init__(self, accepted: List[bool], reached: List[int], violated: List[Optional[Tuple[int, str]]], res: Any) -> None:
        self.accepted, self.reached, self.violated, self.res = accepted, reached, violated, res


def _register(stdout: str, tag: str) -> Any:
    i = stdout.find(f'"{tag}"')
    if i < 0:
        raise MachineryError(f"TLC did not print the {tag} register:\n{stdout[-2500:]}")
    j = stdout.rfind("<<", 0, i)
    vals = tlc.split_top_level(stdout[j:])
    return tlc.plain(tlc.parse_tla(vals[0]))[1]


def _verdicts(res: Any, lengths: List[int]) -> Verdicts:
    if res.violated or res.timed_out:
        raise MachineryError(f"trace validation run failed: {res.violated} timed_out={res.timed_out}\n{res.error_trace[:3000]}")
    reached = [int(x) for x in _register(res.stdout, "REACHED")]
    viol_raw = _register(res.stdout, "VIOLATED")
    violated: List[Optional[Tuple[int, str]]] = [None if int(v[0]) == 0 else (int(v[0]), str(v[1])) for v in viol_raw]
    accepted = [reached[i] == lengths[i] + 1 and violated[i] is None for i in range(len(lengths))]
    return Verdicts(accepted, reached, violated, res)


# =================================================================================================
# Local lock (i): threads with distinct FileLock instances at syscall gates
# =================================================================================================

class FLEnv:
    def __init__(self, lockers: Sequence[str], timeout_s: float, poll_ms: int = 10) -> None:
        from datashard.file_lock import FileLock

        self.clock = Clock("coarse")
        self.sched = Scheduler(self.clock)
        self.sched.max_steps = 4000
        self.dir = scratch_dir("flock")
        self.path = os.path.join(self.dir, "locks", "commit.lock")
        self.timeout_s = timeout_s
        self.poll_ms = poll_ms
        self.locks: Dict[str, Any] = {c: FileLock(self.path, timeout=timeout_s) for c in lockers}
        self.inos: Dict[int, int] = {}
        self.phase: Dict[str, str] = {}
        self.open_fds: set = set()              # descriptors opened by the code under test and not closed yet

    def now_rel(self) -> int:
        return self.clock.rel(self.clock.peek_ms())

    def emit(self, ev: Dict[str, Any]) -> None:
        a = self.sched.me()
        w = ev.pop("a", None) or (a.name if a else None)
        if w is None:
            return
        base = {"a": w, "op": "", "nb": True, "status": "ok", "ino": 0, "created": False, "res": "",
                "locked": bool(self.locks[w]._locked) if w in self.locks else False, "now": self.now_rel()}
        base.update(ev)
        self.sched.emit(base)

    def ino_id(self, fd: int) -> int:
        real = os.fstat(fd).st_ino
        if real not in self.inos:
            self.inos[real] = len(self.inos) + 1
        return self.inos[real]


class _OsProxy:
    """`os` as seen by datashard.file_lock: open / close / unlink are gates + events."""

    def __init__(self, env: FLEnv) -> None:
        self.env = env

    def open(self, path: str, flags: int, mode: int = 0o777, **kw: Any) -> int:
        env = self.env
        if env.sched.me() is None or path != env.path:
            return os.open(path, flags, mode, **kw)
        env.sched.gate("open")
        existed = os.path.lexists(path)
        try:
            fd = os.open(path, flags, mode, **kw)
        except OSError as e:
            env.emit({"k": "Open", "status": type(e).__name__, "op": "EXCL" if flags & os.O_EXCL else ""})
            raise
        env.open_fds.add(fd)
        if not existed and not (flags & os.O_EXCL):
            # the flock lock file is persistent and never written: on a real table its mtime is the table's age.
            # Make every lock file look old, so that any age-based shortcut in the code under test is exercised.
            os.utime(path, (0, 0))
        n_before = len(env.inos)
        ino = env.ino_id(fd)
        if (not existed) != (len(env.inos) > n_before):
            raise MachineryError(f"inode numbering: existed={existed} but inode {'new' if len(env.inos) > n_before else 'seen before'}")
        env.emit({"k": "Open", "ino": ino, "created": not existed, "op": "EXCL" if flags & os.O_EXCL else ""})
        return fd

    def close(self, fd: int) -> None:
        env = self.env
        if env.sched.me() is None:
            return os.close(fd)
        env.sched.gate("close")
        os.close(fd)
        env.open_fds.discard(fd)
        env.emit({"k": "Close"})

    def unlink(self, path: str, **kw: Any) -> None:
        env = self.env
        if env.sched.me() is None or path != env.path:
            return os.unlink(path, **kw)
        env.sched.gate("unlink")
        try:
            os.unlink(path, **kw)
        except OSError as e:
            env.emit({"k": "Unlink", "status": type(e).__name__})
            raise
        env.emit({"k": "Unlink"})

    remove = unlink

    def __getattr__(self, n: str) -> Any:
        return getattr(os, n)


class _FcntlProxy:
    def __init__(self, env: FLEnv) -> None:
        import fcntl

        self.env = env
        self.real = fcntl

    def flock(self, fd: int, flags: int) -> None:
        env, f = self.env, self.real
        a = env.sched.me()
        if a is None:
            return f.flock(fd, flags)
        env.sched.gate("flock")
        if flags & f.LOCK_UN:
            f.flock(fd, flags)
            env.emit({"k": "Flock", "op": "UN"})
            return
        nb = bool(flags & f.LOCK_NB)
        try:
            f.flock(fd, flags | f.LOCK_NB)
            env.emit({"k": "Flock", "op": "EX", "nb": nb})
            return
        except OSError as e:
            if nb:
                env.emit({"k": "Flock", "op": "EX", "nb": True, "status": "EWOULDBLOCK"})
                raise
            err = e
        # a BLOCKING flock on a held lock: the thread would sit in the kernel without a deadline.  Emulated: the
        # actor parks until the lock can be taken (the probe takes it on the actor's own description).
        env.emit({"k": "Flock", "op": "EX", "nb": False, "status": "wait"})
        got = {"ok": False}

        def blocked() -> bool:
            if got["ok"]:
                return False
            try:
                f.flock(fd, flags | f.LOCK_NB)
                got["ok"] = True
                return False
            except OSError:
                return True

        env.sched.gate("fwait", blocked=blocked)
        if not got["ok"]:
            raise err
        env.emit({"k": "FlockWake"})

    def __getattr__(self, n: str) -> Any:
        return getattr(self.real, n)


class _FakeTimeFL:
    def __init__(self, env: FLEnv) -> None:
        self.env = env

    def monotonic(self) -> float:
        env = self.env
        a = env.sched.me()
        if a is not None and sys._getframe(1).f_code.co_name == "acquire":
            env.sched.gate("clock")
            first = env.phase.get(a.name) == "call"
            env.phase[a.name] = "loop"
            env.emit({"k": "AcqStart" if first else "Deadline"})
        return env.clock.peek_ms() / 1000.0

    def time(self) -> float:
        return self.env.clock.peek_ms() / 1000.0

    def sleep(self, d: float) -> None:
        env = self.env
        if env.sched.me() is None:
            return
        env.sched.gate("sleep", dur=d)
        env.emit({"k": "Sleep", "res": f"{d:.3f}"})
        env.clock.advance(env.poll_ms)
        env.emit({"k": "Tick", "a": "env"})

    def __getattr__(self, n: str) -> Any:
        return getattr(_real_time, n)


def _fl_actor(env: FLEnv, name: str, program: Sequence[str]) -> Callable[[], Any]:
    def body() -> None:
        lk = env.locks[name]
        holding = False
        for op in program:
            if op == "acquire":
                env.phase[name] = "call"
                try:
                    r = lk.acquire()
                    holding = bool(r)
                    env.emit({"k": "AcqRet", "res": "ok" if r else "false"})
                except TimeoutError:
                    holding = False
                    env.emit({"k": "AcqRet", "res": "timeout"})
            elif op == "release":
                if not holding:
                    continue
                env.sched.gate("call", op=op)        # the critical section: a scheduling point between acquire() = True and release()
                env.emit({"k": "RelCall"})
                lk.release()
                holding = False
                env.emit({"k": "RelRet"})
            else:
                raise MachineryError(f"unknown program step {op}")

    return body


class _FLHooks(dict):
    def __init__(self, env: FLEnv) -> None:
        super().__init__()
        self.env = env

    def __missing__(self, name: str) -> Callable[[], None]:
        kind, _, arg = name.partition(":")
        if kind != "tick":
            raise KeyError(name)
        env = self.env

        def tick() -> None:
            env.clock.advance(int(arg))
            env.emit({"k": "Tick", "a": "env"})
        return tick


def run_flock(programs: Dict[str, Sequence[str]], schedule: Sequence[Any], *, timeout_s: float = 0.0354,
              random_policy: Optional[Tuple[Any, float, Dict[str, float]]] = None) -> Dict[str, Any]:
    """One execution of real FileLock instances (threads of this process) at syscall granularity."""
    import datashard.file_lock as fl

    if not fl.FCNTL_AVAILABLE:
        raise MachineryError("fcntl not available: the local-lock binding needs the flock mode")
    env = FLEnv(sorted(programs), timeout_s)
    _patch(fl, "os", _OsProxy(env))
    _patch(fl, "fcntl", _FcntlProxy(env))
    _patch(fl, "time", _FakeTimeFL(env))
    err = None
    try:
        s = env.sched
        s.env_hooks = _FLHooks(env)
        for c in sorted(programs):
            s.spawn(c, _fl_actor(env, c, programs[c]), role="locker")
        for c in sorted(programs):
            s.step(s.actors[c])
        sched = [tuple(d) if isinstance(d, list) else d for d in schedule]
        pol: Policy = RandomPolicy(*random_policy) if random_policy is not None else ListPolicy(sched)
        try:
            s.run(pol)
        except Deadlock as e:
            err = f"deadlock: {e}"
        for a in s.actors.values():
            if a.error is not None:
                err = (err or "") + f" actor {a.name} died: {type(a.error).__name__}: {a.error}\n{getattr(a, 'tb', '')}"
        return {"events": s.trace, "decisions": [list(d) for d in s.decisions], "harness_error": err,
                "programs": {c: list(p) for c, p in programs.items()}, "timeout_s": timeout_s}
    finally:
        _unpatch()
        for lk in env.locks.values():          # real modules again: let go of whatever is still held
            try:
                lk.release()
            except Exception:  # noqa: BLE001
                pass
            fd = getattr(lk, "_lock_fd", None)
            if isinstance(fd, int) and fd in env.open_fds:
                try:
                    os.close(fd)
                except OSError:
                    pass
            # a (changed) release() that failed half way must not act later from __del__, inside another execution
            lk._locked = False
            lk._lock_fd = None
        shutil.rmtree(env.dir, ignore_errors=True)


FL_PROGRAM = ("acquire", "release", "acquire", "release")


def systematic_flock(lockers: Sequence[str], quick: bool) -> List[Tuple[Dict[str, Sequence[str]], List[Any]]]:
    """Pause points at every syscall of acquire / release: p runs i gates, q runs j, (r runs k,) p runs m more, optional
    clock advance, then the lockers finish in every order.  (The third segment of p is what lets a release + re-acquire
    happen while another locker sits between its open() and its flock().)"""
    import itertools

    progs = {c: FL_PROGRAM for c in lockers}
    out: List[Tuple[Dict[str, Sequence[str]], List[Any]]] = []
    n = 7 if quick else 10
    ticks: List[List[Any]] = [[], [["env", "tick:40"]]]
    if len(lockers) == 2:
        for p, q in itertools.permutations(lockers):
            for i in range(n):
                for j in range(n + 1):
                    for m in range(n + 2):
                        e = ticks[(i + j + m) % 2] if quick else None
                        for e_ in ([e] if e is not None else ticks):
                            out.append((progs, [p] * i + [q] * j + [p] * m + e_ + [q] * 80 + [p] * 80))
                            if m == 0:
                                out.append((progs, [p] * i + [q] * j + e_ + [p] * 80 + [q] * 80))
        return out
    for perm in itertools.permutations(lockers):
        p, q, r = perm
        for i in range(n):
            for j in range(n):
                for k in range(0, n, 2 if quick else 1):
                    for m in range(0, n + 2, 3 if quick else 1):
                        e = ticks[(i + j + k + m) % 2]
                        out.append((progs, [p] * i + [q] * j + [r] * k + [p] * m + e + [q] * 80 + [r] * 80 + [p] * 80))
    return out


def validate_flock(traces: Sequence[Dict[str, Any]], mode: str, lockers: Sequence[str], timeout_units: int,
                   slack: int = 0, timeout_s: int = 600) -> Verdicts:
    wd = tlc.workdir_with_specs()
    tf = os.path.join(wd, "traces.json")
    with open(tf, "w") as f:
        json.dump({"traces": [{"events": t["events"]} for t in traces]}, f)
    cfg = tlc.make_cfg(spec="TraceSpec", constants={"Lockers": set(lockers), "ProcOf": tlc.Raw("<- TraceProcOf"), "Timeout": timeout_units,
                                                    "StaleAge": 10 * timeout_units, "MaxNow": 2_000_000_000, "MaxRounds": 1000, "Mode": "flock",
                                                    "UnlinkOnRelease": False, "BlockingFlock": False, "AllowDie": False,
                                                    "TraceMode": mode, "Slack": slack},
                       constraints=["Progress"], postcondition="Verdicts", check_deadlock=False)
    res = tlc.run_tlc("Trace_FLock", cfg, wd=wd, workers=1, timeout_s=timeout_s, env={"TRACE_FILE": tf},
                      label=f"Trace_FLock[{mode}] x{len(traces)}")
    shutil.rmtree(wd, ignore_errors=True)
    return _verdicts(res, [len(t["events"]) for t in traces])


# =================================================================================================
# Local lock (ii): real processes
# =================================================================================================

STRESS_CHILD = r'''
import json, os, sys, time, types
src = os.environ["DATASHARD_SRC"]
pkg = types.ModuleType("datashard"); pkg.__path__ = [os.path.join(src, "datashard")]   # file_lock only: skip the package __init__ (pyarrow ...)
sys.modules["datashard"] = pkg
from datashard.file_lock import FileLock
mode, name, lock_path, counter_path, log_path, timeout, arg, base_ns = sys.argv[1:9]
timeout = float(timeout); arg = float(arg); base_ns = int(base_ns)
log = open(log_path, "a")
def ev(k, **kw):
    ns = time.monotonic_ns() - base_ns
    log.write(json.dumps(dict(kw, k=k, a=name, ns=ns)) + "\n")
    if mode != "loop":
        log.flush(); os.fsync(log.fileno())
lk = FileLock(lock_path, timeout=timeout)
if mode == "loop":                      # arg = seconds to run
    end = time.monotonic() + arg
    while time.monotonic() < end:
        ev("AcqCall", timeout=timeout)
        try:
            ok = lk.acquire()
        except TimeoutError:
            ev("Timeout"); continue
        if ok is not True:
            ev("AcqOther"); continue
        with open(counter_path) as f:
            c = int(f.read() or "0")
        ev("Enter", c=c)                                  # logged INSIDE the critical section
        with open(counter_path, "w") as f:
            f.write(str(c + 1))
        ev("Exit", c=c + 1)
        lk.release()
    log.flush()
elif mode == "hold":                    # arg = seconds to hold
    ev("AcqCall", timeout=timeout)
    lk.acquire()
    ev("Enter", c=0)
    open(log_path + ".ready", "w").close()
    time.sleep(arg)
    ev("Exit", c=1)
    lk.release()
elif mode == "wait":                    # a blocked acquirer
    ev("AcqCall", timeout=timeout)
    try:
        ok = lk.acquire()
        ev("Enter" if ok is True else "AcqOther", c=int(arg))
        if ok is True:
            ev("Exit", c=int(arg) + 1)
            lk.release()
    except TimeoutError:
        ev("Timeout")
log.close()
'''


def _spawn(mode: str, name: str, d: str, lock: str, timeout: float, arg: float, base_ns: int) -> subprocess.Popen:
    env = dict(os.environ)
    env["DATASHARD_SRC"] = os.environ.get("DATASHARD_SRC", "/repo/src")
    env["PYTHONPATH"] = env["DATASHARD_SRC"]
    env["PYTHONDONTWRITEBYTECODE"] = "1"
    return subprocess.Popen(["/venv/bin/python", "-c", STRESS_CHILD, mode, name, os.path.join(d, lock + ".lock"), os.path.join(d, lock + ".counter"),
                             os.path.join(d, f"{lock}.{name}.log"), repr(timeout), repr(arg), str(base_ns)],
                            env=env, stdout=subprocess.DEVNULL, stderr=subprocess.PIPE)


def _wait_ready(path: str, procs: Sequence[subprocess.Popen], limit_s: float = 20.0) -> None:
    t0 = _real_time.monotonic()
    while not os.path.exists(path):
        if _real_time.monotonic() - t0 > limit_s or any(p.poll() not in (None, 0) for p in procs):
            errs = b"".join((p.stderr.read() if p.poll() is not None and p.stderr else b"") for p in procs)
            raise MachineryError(f"stress child did not become ready: {errs.decode(errors='replace')[-1500:]}")
        _real_time.sleep(0.005)


def _merge(d: str, lock: str, extra: Sequence[Dict[str, Any]] = ()) -> List[Dict[str, Any]]:
    evs: List[Dict[str, Any]] = list(extra)
    for fn in sorted(os.listdir(d)):
        if fn.startswith(lock + ".") and fn.endswith(".log"):
            with open(os.path.join(d, fn)) as f:
                evs += [json.loads(line) for line in f if line.strip()]
    order = {"Exit": 0, "Kill": 1, "AcqCall": 2, "Timeout": 3, "Enter": 4}
    evs.sort(key=lambda e: (e["ns"], order.get(e["k"], 5)))
    out = []
    for e in evs:
        out.append({"k": e["k"], "a": e["a"], "t": max(0, e["ns"] // 1000), "c": int(e.get("c", 0)),
                    "timeout": int(round(float(e.get("timeout", 0)) * 1_000_000))})
    return out


def stress(n_procs: int = 6, loop_s: float = 2.5, block_timeout_s: float = 0.5) -> Dict[str, Any]:
    """Three real-process experiments, run concurrently on three lock files:
       loop  : n_procs processes loop acquire -> counter++ -> release (log lines written inside the critical section)
       kill  : H holds; W starts waiting; H is SIGKILLed while holding; W must acquire
       block : H holds for block_timeout + 3 s; W (timeout = block_timeout) must raise TimeoutError by timeout + slack (2 s)
    Returns the three merged traces (Trace_FLock "stress" events, t in microseconds of CLOCK_MONOTONIC)."""
    d = scratch_dir("stress")
    base = _real_time.monotonic_ns()
    for lock in ("loop", "kill", "block"):
        with open(os.path.join(d, lock + ".counter"), "w") as f:
            f.write("0")
    procs: List[subprocess.Popen] = []
    try:
        names = [f"p{i}" for i in range(n_procs)]
        loopers = [_spawn("loop", nm, d, "loop", 20.0, loop_s, base) for nm in names]
        hk = _spawn("hold", "H", d, "kill", 20.0, 60.0, base)
        hb = _spawn("hold", "H", d, "block", 20.0, block_timeout_s + 3.0, base)
        procs = loopers + [hk, hb]
        _wait_ready(os.path.join(d, "kill.H.log.ready"), [hk])
        wk = _spawn("wait", "W", d, "kill", 10.0, 0, base)
        _wait_ready(os.path.join(d, "block.H.log.ready"), [hb])
        wb = _spawn("wait", "W", d, "block", block_timeout_s, 1, base)
        procs += [wk, wb]
        # let W of the kill experiment block for a moment, then kill the holder while it holds
        t0 = _real_time.monotonic()
        while _real_time.monotonic() - t0 < 3.0:
            log = os.path.join(d, "kill.W.log")
            if os.path.exists(log) and os.path.getsize(log) > 0:
                break
            _real_time.sleep(0.005)
        _real_time.sleep(0.15)
        kill_ns = _real_time.monotonic_ns() - base
        hk.send_signal(signal.SIGKILL)
        hk.wait()
        errs = []
        for p in procs:
            if p is hk:
                continue
            try:
                p.wait(timeout=40)
            except subprocess.TimeoutExpired:
                p.kill()
                errs.append("child did not finish within 40 s")
            if p.returncode not in (0, None):
                errs.append((p.stderr.read() if p.stderr else b"").decode(errors="replace")[-800:])
        traces = {
            "loop": {"events": _merge(d, "loop"), "lockers": names},
            "kill": {"events": _merge(d, "kill", [{"k": "Kill", "a": "H", "ns": kill_ns}]), "lockers": ["H", "W"]},
            "block": {"events": _merge(d, "block"), "lockers": ["H", "W"], "timeout_us": int(round(block_timeout_s * 1_000_000))},
        }
        with open(os.path.join(d, "loop.counter")) as f:
            traces["loop"]["final_counter"] = int(f.read() or "0")
        return {"traces": traces, "errors": errs}
    finally:
        for p in procs:
            if p.poll() is None:
                p.kill()
        shutil.rmtree(d, ignore_errors=True)


def validate_stress(st: Dict[str, Any], slack_us: int = 2_000_000) -> Dict[str, Tuple[bool, int, Optional[Tuple[int, str]], Any]]:
    """One TLC run for the three experiments; returns name -> (accepted, reached, violated, TLCResult)."""
    names = list(st["traces"])
    lockers = sorted({x for t in st["traces"].values() for x in t["lockers"]})
    wd = tlc.workdir_with_specs()
    tf = os.path.join(wd, "traces.json")
    with open(tf, "w") as f:
        json.dump({"traces": [{"events": st["traces"][n]["events"]} for n in names]}, f)
    cfg = tlc.make_cfg(spec="TraceSpec", constants={"Lockers": set(lockers), "ProcOf": tlc.Raw("<- TraceProcOf"), "Timeout": 0, "StaleAge": 0,
                                                    "MaxNow": 2_000_000_000, "MaxRounds": 1000, "Mode": "flock", "UnlinkOnRelease": False,
                                                    "BlockingFlock": False, "AllowDie": False, "TraceMode": "stress", "Slack": slack_us},
                       constraints=["Progress"], postcondition="Verdicts", check_deadlock=False)
    res = tlc.run_tlc("Trace_FLock", cfg, wd=wd, workers=1, timeout_s=300, env={"TRACE_FILE": tf}, label="Trace_FLock[stress] x3", heap="2g")
    shutil.rmtree(wd, ignore_errors=True)
    v = _verdicts(res, [len(st["traces"][n]["events"]) for n in names])
    return {n: (v.accepted[i], v.reached[i], v.violated[i], res) for i, n in enumerate(names)}


# =================================================================================================
# many executions in worker processes (the patches are process-wide, so one execution at a time per process)
# =================================================================================================

def _job(args: Tuple[str, str, Dict[str, Sequence[str]], Sequence[Any], Dict[str, Any]]) -> Dict[str, Any]:
    kind, origin, programs, sched, kw = args
    t = run_s3(programs, sched, **kw) if kind == "s3" else run_flock(programs, sched, **kw)
    t["origin"], t["kind"] = origin, kind
    return t


def run_many(jobs: Sequence[Tuple[str, str, Dict[str, Sequence[str]], Sequence[Any], Dict[str, Any]]], procs: int = 4) -> List[Dict[str, Any]]:
    """jobs: (kind 's3'|'flock', origin label, programs, schedule, keyword arguments of run_s3 / run_flock)."""
    if len(jobs) < 50 or procs <= 1:
        return [_job(j) for j in jobs]
    import multiprocessing as mp

    from . import common

    # the workers put their scratch under THIS process's scratch root (pool workers are terminated without atexit)
    with mp.get_context("spawn").Pool(procs, initializer=_adopt_scratch, initargs=(common.scratch_root(),)) as pool:
        return pool.map(_job, list(jobs), chunksize=max(8, len(jobs) // (procs * 8)))


def _adopt_scratch(root: str) -> None:
    from . import common

    common._scratch_root = root
